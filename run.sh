#!/bin/bash
# run.sh <ID> quick|thorough        run a check (rebuilds first)
# run.sh <ID> replay <file>         replay one recorded case
cd "$(dirname "$0")"
. ./env.sh
./build.sh >&2 || { echo "HARNESS-ERROR: build failed" >&2; exit 2; }
id="$1"; shift
if [ "$1" = "replay" ]; then
  exec "${VERIF_BIN:-bin/vcheck}" "$id" -replay "$2"
fi
exec "${VERIF_BIN:-bin/vcheck}" "$id" -tier "${1:-${VERIF_TIER:-quick}}"
