package checks

import (
	"context"
	"fmt"
	"io"
	"strings"
	"time"

	"grol.io/grol/eval"
	"grol.io/grol/lexer"
	"grol.io/grol/repl"
	"grol.io/grol/token"
	"verif/internal/core"
	"verif/internal/obs"
)

// C15 — line-at-a-time input is equivalent to whole-file input.

// c15Tokens lexes a text (file mode) and returns token types with their end positions.
type c15Tok struct {
	typ token.Type
	lit string
	beg int
	end int
}

func c15Lex(text string) []c15Tok {
	l := lexer.New(text)
	var out []c15Tok
	for i := 0; i < len(text)+2; i++ {
		p0 := l.Pos()
		t := l.NextToken()
		if t.Type() == token.EOF {
			break
		}
		// beginning of the token proper (skip whitespace)
		b := p0
		for b < len(text) && (text[b] == ' ' || text[b] == '\t' || text[b] == '\n' || text[b] == '\r') {
			b++
		}
		out = append(out, c15Tok{t.Type(), t.Literal(), b, min(l.Pos(), len(text))})
	}
	return out
}

var c15Binary = map[token.Type]bool{
	token.PLUS: true, token.MINUS: true, token.ASTERISK: true, token.SLASH: true, token.PERCENT: true, token.EQ: true, token.NOTEQ: true,
	token.LT: true, token.GT: true, token.LTEQ: true, token.GTEQ: true, token.LEFTSHIFT: true, token.RIGHTSHIFT: true, token.BITAND: true,
	token.BITOR: true, token.BITXOR: true, token.AND: true, token.OR: true, token.ASSIGN: true, token.DEFINE: true, token.COLON: true,
	token.DOT: true, token.LAMBDA: true,
}

// operandEnd: token kinds after which an operator is in binary position.
func c15OperandEnd(t token.Type) bool {
	switch t {
	case token.IDENT, token.INT, token.FLOAT, token.STRING, token.RPAREN, token.RBRACKET, token.RBRACE, token.TRUE, token.FALSE:
		return true
	}
	return false
}

// c15Prefixes: for a complete, accepted text, every cut at a token boundary (and inside string / block comment
// tokens) whose prefix the harness's own tracker classifies as open: returns (prefix, reason).
func c15OpenPrefixes(text string, toks []c15Tok, f func(prefix, reason string) bool) bool {
	var stack []byte
	for i, t := range toks {
		// cuts inside a string or block comment token
		if t.typ == token.STRING || t.typ == token.BLOCKCOMMENT {
			for cut := t.beg + 1; cut < t.end; cut++ {
				if t.typ == token.STRING && text[t.beg] == '"' && cut > t.beg+1 && text[cut-1] == '\\' {
					continue // do not cut in the middle of an escape
				}
				reason := "inside-string"
				if t.typ == token.BLOCKCOMMENT {
					reason = "inside-block-comment"
					if cut < t.beg+2 {
						continue
					}
				}
				if !f(text[:cut], reason) {
					return false
				}
			}
		}
		switch t.typ {
		case token.LPAREN:
			stack = append(stack, ')')
		case token.LBRACKET:
			stack = append(stack, ']')
		case token.LBRACE:
			stack = append(stack, '}')
		case token.RPAREN, token.RBRACKET, token.RBRACE:
			if len(stack) > 0 {
				stack = stack[:len(stack)-1]
			}
		}
		if i == len(toks)-1 {
			break // the whole text is not a proper prefix
		}
		prefix := text[:t.end]
		switch {
		case len(stack) > 0:
			if !f(prefix, "inside-"+string(stack[len(stack)-1])) {
				return false
			}
		case c15Binary[t.typ] && i > 0 && c15OperandEnd(toks[i-1].typ):
			if !f(prefix, "after-binary-operator") {
				return false
			}
		}
	}
	return true
}

func c15One(text, fam string) (*core.Viol, bool, int) {
	src := []byte(text)
	rf := parseText(src, false)
	if !rf.clean() {
		if corpusMustAccept[fam] {
			return &core.Viol{Class: "valid-program-rejected", Detail: fmt.Sprintf("%v %s", rf.errs, rf.panic), Case: core.BytesCase(fam, "whole", src), FindText: trunc(text, 200)}, true, 0
		}
		return nil, false, 0
	}
	mk := func(class, detail string, cs core.Case) *core.Viol {
		return &core.Viol{Class: class, Detail: detail, Case: cs, FindText: text}
	}
	whole := core.BytesCase(fam, "whole", src)
	// (1) complete program: same tree in line mode, no error, no continuation
	rl := parseText(src, true)
	if rl.panic != "" {
		return mk("line-mode-"+rl.panic, "", whole), true, 0
	}
	if len(rl.errs) > 0 {
		return mk("line-mode-error-on-complete-program", firstLine(rl.errs[0]), whole), true, 0
	}
	if rl.cont {
		return mk("line-mode-continuation-on-complete-program", "complete program asks for more input", whole), true, 0
	}
	if d1, d2 := obs.DumpAST(rf.prog, obs.DumpOpt{CommentFlags: true}), obs.DumpAST(rl.prog, obs.DumpOpt{CommentFlags: true}); d1 != d2 {
		return mk("line-mode-tree-differs@"+diffSite(d1, d2), fmt.Sprintf("file mode %s, line mode %s", trunc(d1, 300), trunc(d2, 300)), whole), true, 0
	}
	// (2) every open prefix asks for more input without error (for the very long texts of the corpus, whose open
	//     prefixes are the same few repeated thousands of times, only those within the first 3000 bytes)
	n := 0
	var viol *core.Viol
	ptext := text
	if len(ptext) > 20000 {
		// (the cut analysis is quadratic in the text length)
		if i := strings.LastIndexByte(ptext[:3000], '\n'); i > 0 {
			ptext = ptext[:i+1]
		} else {
			ptext = ""
		}
	}
	c15OpenPrefixes(ptext, c15Lex(ptext), func(prefix, reason string) bool {
		n++
		r := parseText([]byte(prefix), true)
		cs := core.BytesCase(fam, "prefix:"+reason, []byte(prefix))
		switch {
		case r.panic != "":
			viol = mk("prefix-"+r.panic, reason, cs)
		case len(r.errs) > 0:
			viol = mk("prefix-error:"+reason, fmt.Sprintf("prefix %q (%s) of a valid program reports %s", prefix, reason, firstLine(r.errs[0])), cs)
		case !r.cont:
			viol = mk("prefix-no-continuation:"+reason, fmt.Sprintf("prefix %q (%s) of a valid program does not ask for more input", prefix, reason), cs)
		}
		return viol == nil
	})
	return viol, true, n
}

// ---- scripts fed chunk by chunk ----

type c15Run struct {
	out     string
	globals string
	errs    string
}

func c15Feed(chunks []string, lineMode bool) c15Run {
	s := eval.NewState()
	var printed strings.Builder
	s.Out = &printed
	s.LogOut = &printed
	s.NoLog = true
	opts := repl.Options{All: !lineMode, ShowEval: true, NoColor: true}
	var errs []string
	pending := ""
	for _, ch := range chunks {
		in := pending + ch
		cont, _, es, _ := repl.EvalOne(context.Background(), s, in, io.Discard, opts)
		if cont {
			pending = in + "\n" // like repl.Interactive accumulates lines
			continue
		}
		pending = ""
		errs = append(errs, es...)
	}
	if pending != "" {
		errs = append(errs, "input still incomplete at the end")
	}
	return c15Run{out: printed.String(), globals: globalsDump(s), errs: strings.Join(errs, " | ")}
}

// c15FeedGrol feeds the chunks through the repl.Grol Parse / Run session API (one persistent state).
func c15FeedGrol(chunks []string) c15Run {
	g := repl.New()
	var printed strings.Builder
	g.State.Out = &printed
	g.State.LogOut = &printed
	g.State.NoLog = true
	var errs []string
	for _, ch := range chunks {
		if err := g.Parse([]byte(ch)); err != nil {
			errs = append(errs, err.Error())
			continue
		}
		if err := g.Run(&printed); err != nil {
			errs = append(errs, err.Error())
		}
	}
	return c15Run{out: printed.String(), globals: globalsDump(g.State), errs: strings.Join(errs, " | ")}
}

func c15Script(stmts []string) *core.Viol {
	text := strings.Join(stmts, "\n")
	cs := core.Case{Kind: "script", Data: strings.Join(stmts, " ;; ")}
	whole := c15Feed([]string{text}, false)
	// a script is a case when it is error-free fed one statement at a time (the reading that needs no look-ahead)
	if one := c15Feed(stmts, true); one.errs != "" {
		return &core.Viol{Class: "not-a-case", Detail: one.errs, Case: cs}
	}
	n := len(stmts)
	for mask := 0; mask < 1<<(n-1); mask++ {
		var chunks []string
		cur := stmts[0]
		for i := 1; i < n; i++ {
			if mask&(1<<(i-1)) != 0 {
				chunks = append(chunks, cur)
				cur = stmts[i]
			} else {
				cur += "\n" + stmts[i]
			}
		}
		chunks = append(chunks, cur)
		if gg := c15FeedGrol(chunks); gg.out != whole.out || gg.globals != whole.globals || (gg.errs == "") != (whole.errs == "") {
			return &core.Viol{Class: "chunked-differs:session-api", Detail: fmt.Sprintf("chunks %q through repl.Grol Parse/Run: out=%q errs=%q ; whole: out=%q errs=%q", chunks, gg.out, gg.errs, whole.out, whole.errs), Case: cs, FindText: text}
		}
		got := c15Feed(chunks, true)
		if got.out != whole.out || got.globals != whole.globals || got.errs != whole.errs {
			what := "output"
			if got.out == whole.out {
				what = "globals"
				if got.globals == whole.globals {
					what = "errors"
				}
			}
			return &core.Viol{Class: "chunked-differs:" + what, Detail: fmt.Sprintf("chunks %q: out=%q errs=%q globals=%q ; whole: out=%q globals=%q", chunks, got.out, got.errs, trunc(got.globals, 300), whole.out, trunc(whole.globals, 300)), Case: cs, FindText: text}
		}
	}
	return nil
}

var c15ScriptStmts = func() []string {
	var out []string
	for _, s := range c01StmtAlphabet {
		if strings.Contains(s, "return") && !strings.Contains(s, "func") && !strings.Contains(s, "=>") {
			continue // no top-level return
		}
		if strings.HasPrefix(s, "error(") {
			continue
		}
		// a line starting with an operator continues the previous statement when the script is parsed whole
		// (newlines do not end expressions): such lines are not statement boundaries of the script
		if strings.IndexAny(s[:1], "+-^([{") == 0 {
			continue
		}
		out = append(out, s)
	}
	out = append(out, "mq = macro(x) { quote(unquote(x) * 2) }", "w = mq(v + 1)", "println(mq(3))", "mr = macro(y) { quote(unquote(y) + 1) }", "println(mr(4))", "// a comment", "/* block\ncomment */", "long = [\n1,\n2,\n]"[0:0]+"long = [1,\n 2]", "s2 = \"multi\nline\"", "if v > 0 {\n println(\"pos\")\n} else {\n println(\"neg\")\n}")
	return out
}()

func runC15(c *core.Ctx) {
	// (no token.Init() here: resetting the interning table invalidates the token pointers the evaluator keeps, e.g.
	// for unquote, and the scripts with macros would silently stop being cases)
	opt := corpusOptFor(c)
	opt.mutations = 0 // byte mutations of the examples add nothing here: complete accepted programs only
	var prefixes int64
	var bounds []string
	// (the script family runs first: it is the cheaper one and must not be starved by the corpus when time is short)
	// scripts
	if !c.Expired() {
		depth := 3
		if !c.Quick() {
			depth = 4
		}
		alpha := c15ScriptStmts
		enumTuples(len(alpha), depth, func(idx []int) bool {
			if len(idx) < 2 {
				return true
			}
			if len(idx) == 4 {
				for _, x := range idx {
					if x >= 24 {
						return true
					}
				}
			}
			if len(idx) == 3 && c.Quick() {
				// quick tier: triples over the first 28 statements and the 10 added ones (macros, comments, multi-line)
				for _, x := range idx {
					if x >= 28 && x < len(alpha)-10 {
						return true
					}
				}
			}
			if c.P.Evals&0xff == 0 && c.Expired() {
				return false
			}
			stmts := make([]string, 0, len(idx)+1)
			stmts = append(stmts, "v = 2; w = 0; p = 1")
			for _, x := range idx {
				stmts = append(stmts, alpha[x])
			}
			key := strings.Join(stmts, " ;; ")
			if !c.MineNoDedup("script", key) {
				return true
			}
			c.Current(core.Case{Kind: "script", Data: key})
			vv := c15Script(stmts)
			if vv != nil && vv.Class == "not-a-case" {
				c.CountNT("script: "+trunc(key, 160), "not-a-case", false)
				return true
			}
			var v *core.Viol
			if vv != nil {
				v = c.Run(func() *core.Viol { return c15Script(stmts) })
			}
			out := "chunked-same"
			if v != nil {
				out = v.Class
			}
			c.CountNT("script: "+trunc(key, 160), out, true)
			c.P.Traces++
			return true
		})
		bounds = append(bounds, fmt.Sprintf("scripts: every sequence of 2..%d statements (quick: triples over 38 of them) of a %d-statement alphabet (incl. macro definition/use, multi-line statements, comments) that runs without error, every split into consecutive chunks fed through repl.EvalOne in line mode on one state (accumulating while continuation is requested): printed output and final SaveGlobals text equal the whole-script run", depth, len(alpha)))
	}
	_, cb := forEachCorpusText(c, opt, func(fam, text string) bool {
		var isCase bool
		var n int
		cs := core.BytesCase(fam, "whole", []byte(text))
		c.Current(cs)
		v := c.Run(func() *core.Viol {
			vv, ic, k := c15One(text, fam)
			isCase, n = ic, k
			return vv
		})
		prefixes += int64(n)
		out := "not-a-case"
		if isCase {
			out = "same-tree"
		}
		if v != nil {
			out = v.Class
		}
		c.CountNT(fam+": "+trunc(text, 120), out, isCase)
		return true
	})
	c.Note("open_prefixes_checked", prefixes)
	bounds = append(bounds, cb...)
	bounds = append(bounds, "for each accepted text: line-mode tree == file-mode tree, and every cut at a token boundary inside an unclosed ( [ { or right after a binary operator, and every cut inside a string or block comment, must request continuation without error")
	c.P.Bound = strings.Join(bounds, "; ")
}

func init() {
	core.Register(&core.Check{
		ID:    "C15",
		Level: "exploration",
		Rule: "the source-text corpus of C02 (grammar trees by size, two-level trees, adjacency, literals, comments, shipped programs): every accepted text is parsed in line mode and file mode (equal canonical dumps incl. comment placement flags, no error, no continuation); every proper prefix ending at a token boundary that the harness's own bracket/operator tracker classifies as inside an unclosed ( [ {, or right after a binary operator, and every cut inside a string or block comment token, must set ContinuationNeeded and report no error; scripts (all short statement sequences that run without error) are fed in every split into consecutive chunks through repl.EvalOne in line mode on one persistent state and must give the same printed output and final globals as the whole script. Non-trivial = accepted texts / error-free scripts.",
		Assume:      []string{"token boundaries are taken from the lexer (checked by C16); the bracket/operator tracker is the harness's own"},
		QuickCap:    100 * time.Second,
		ThoroughCap: 20 * time.Minute,
		HangLimit:   240 * time.Second,
		Run:         runC15,
		Replay: func(c *core.Ctx, cs core.Case) *core.Viol {
			if cs.Kind == "script" {
				v := c15Script(strings.Split(cs.Data, " ;; "))
				if v != nil && v.Class == "not-a-case" {
					return nil
				}
				return v
			}
			if strings.HasPrefix(cs.Cfg, "prefix:") {
				r := parseText(cs.Bytes(), true)
				switch {
				case r.panic != "":
					return &core.Viol{Class: "prefix-" + r.panic, Case: cs}
				case len(r.errs) > 0:
					return &core.Viol{Class: "prefix-error:" + strings.TrimPrefix(cs.Cfg, "prefix:"), Detail: firstLine(r.errs[0]), Case: cs}
				case !r.cont:
					return &core.Viol{Class: "prefix-no-continuation:" + strings.TrimPrefix(cs.Cfg, "prefix:"), Case: cs}
				}
				return nil
			}
			v, _, _ := c15One(string(cs.Bytes()), cs.Kind)
			return v
		},
	})
}
