package checks

import (
	"bytes"
	"context"
	"fmt"
	"io"
	"os"
	"os/exec"
	"path/filepath"
	"strings"
	"sync"
	"time"

	"grol.io/grol/eval"
	"grol.io/grol/lexer"
	"grol.io/grol/repl"
	"grol.io/grol/token"
	"verif/internal/core"
	"verif/internal/obs"
)

// C15 — line-at-a-time input is equivalent to whole-file input.

// c15Tokens lexes a text (file mode) and returns token types with their end positions.
type c15Tok struct {
	typ token.Type
	lit string
	beg int
	end int
}

func c15Lex(text string) []c15Tok {
	l := lexer.New(text)
	var out []c15Tok
	for i := 0; i < len(text)+2; i++ {
		p0 := l.Pos()
		t := l.NextToken()
		if t.Type() == token.EOF {
			break
		}
		// beginning of the token proper (skip whitespace)
		b := p0
		for b < len(text) && (text[b] == ' ' || text[b] == '\t' || text[b] == '\n' || text[b] == '\r') {
			b++
		}
		out = append(out, c15Tok{t.Type(), t.Literal(), b, min(l.Pos(), len(text))})
	}
	return out
}

var c15Binary = map[token.Type]bool{
	token.PLUS: true, token.MINUS: true, token.ASTERISK: true, token.SLASH: true, token.PERCENT: true, token.EQ: true, token.NOTEQ: true,
	token.LT: true, token.GT: true, token.LTEQ: true, token.GTEQ: true, token.LEFTSHIFT: true, token.RIGHTSHIFT: true, token.BITAND: true,
	token.BITOR: true, token.BITXOR: true, token.AND: true, token.OR: true, token.ASSIGN: true, token.DEFINE: true, token.COLON: true,
	token.DOT: true, token.LAMBDA: true,
}

// operandEnd: token kinds after which an operator is in binary position.
func c15OperandEnd(t token.Type) bool {
	switch t {
	case token.IDENT, token.INT, token.FLOAT, token.STRING, token.RPAREN, token.RBRACKET, token.RBRACE, token.TRUE, token.FALSE:
		return true
	}
	return false
}

// c15Prefixes: for a complete, accepted text, every cut at a token boundary (and inside string / block comment
// tokens) whose prefix the harness's own tracker classifies as open: returns (prefix, reason).
func c15OpenPrefixes(text string, toks []c15Tok, f func(prefix, reason string) bool) bool {
	var stack []byte
	for i, t := range toks {
		// cuts inside a string or block comment token
		if t.typ == token.STRING || t.typ == token.BLOCKCOMMENT {
			for cut := t.beg + 1; cut < t.end; cut++ {
				if t.typ == token.STRING && text[t.beg] == '"' && cut > t.beg+1 && text[cut-1] == '\\' {
					continue // do not cut in the middle of an escape
				}
				reason := "inside-string"
				if t.typ == token.BLOCKCOMMENT {
					reason = "inside-block-comment"
					if cut < t.beg+2 {
						continue
					}
				}
				if !f(text[:cut], reason) {
					return false
				}
			}
		}
		switch t.typ {
		case token.LPAREN:
			stack = append(stack, ')')
		case token.LBRACKET:
			stack = append(stack, ']')
		case token.LBRACE:
			stack = append(stack, '}')
		case token.RPAREN, token.RBRACKET, token.RBRACE:
			if len(stack) > 0 {
				stack = stack[:len(stack)-1]
			}
		}
		if i == len(toks)-1 {
			break // the whole text is not a proper prefix
		}
		prefix := text[:t.end]
		switch {
		case len(stack) > 0:
			if !f(prefix, "inside-"+string(stack[len(stack)-1])) {
				return false
			}
		case c15Binary[t.typ] && i > 0 && c15OperandEnd(toks[i-1].typ):
			if !f(prefix, "after-binary-operator") {
				return false
			}
		}
	}
	return true
}

func c15One(text, fam string) (*core.Viol, bool, int) {
	src := []byte(text)
	rf := parseText(src, false)
	if !rf.clean() {
		if corpusMustAccept[fam] {
			return &core.Viol{Class: "valid-program-rejected", Detail: fmt.Sprintf("%v %s", rf.errs, rf.panic), Case: core.BytesCase(fam, "whole", src), FindText: trunc(text, 200)}, true, 0
		}
		return nil, false, 0
	}
	mk := func(class, detail string, cs core.Case) *core.Viol {
		return &core.Viol{Class: class, Detail: detail, Case: cs, FindText: text}
	}
	whole := core.BytesCase(fam, "whole", src)
	// (1) complete program: same tree in line mode, no error, no continuation
	rl := parseText(src, true)
	if rl.panic != "" {
		return mk("line-mode-"+rl.panic, "", whole), true, 0
	}
	if len(rl.errs) > 0 {
		return mk("line-mode-error-on-complete-program", firstLine(rl.errs[0]), whole), true, 0
	}
	if rl.cont {
		return mk("line-mode-continuation-on-complete-program", "complete program asks for more input", whole), true, 0
	}
	if d1, d2 := obs.DumpAST(rf.prog, obs.DumpOpt{CommentFlags: true}), obs.DumpAST(rl.prog, obs.DumpOpt{CommentFlags: true}); d1 != d2 {
		return mk("line-mode-tree-differs@"+diffSite(d1, d2), fmt.Sprintf("file mode %s, line mode %s", trunc(d1, 300), trunc(d2, 300)), whole), true, 0
	}
	// (2) every open prefix asks for more input without error (for the very long texts of the corpus, whose open
	//     prefixes are the same few repeated thousands of times, only those within the first 3000 bytes)
	n := 0
	var viol *core.Viol
	ptext := text
	if len(ptext) > 20000 {
		// (the cut analysis is quadratic in the text length)
		if i := strings.LastIndexByte(ptext[:3000], '\n'); i > 0 {
			ptext = ptext[:i+1]
		} else {
			ptext = ""
		}
	}
	c15OpenPrefixes(ptext, c15Lex(ptext), func(prefix, reason string) bool {
		n++
		r := parseText([]byte(prefix), true)
		cs := core.BytesCase(fam, "prefix:"+reason, []byte(prefix))
		switch {
		case r.panic != "":
			viol = mk("prefix-"+r.panic, reason, cs)
		case len(r.errs) > 0:
			viol = mk("prefix-error:"+reason, fmt.Sprintf("prefix %q (%s) of a valid program reports %s", prefix, reason, firstLine(r.errs[0])), cs)
		case !r.cont:
			viol = mk("prefix-no-continuation:"+reason, fmt.Sprintf("prefix %q (%s) of a valid program does not ask for more input", prefix, reason), cs)
		}
		return viol == nil
	})
	return viol, true, n
}

// ---- scripts fed chunk by chunk ----

type c15Run struct {
	out     string
	globals string
	errs    string
}

func c15Feed(chunks []string, lineMode bool) c15Run {
	s := eval.NewState()
	var printed strings.Builder
	s.Out = &printed
	s.LogOut = &printed
	s.NoLog = true
	opts := repl.Options{All: !lineMode, ShowEval: true, NoColor: true}
	var errs []string
	pending := ""
	for _, ch := range chunks {
		in := pending + ch
		cont, _, es, _ := repl.EvalOne(context.Background(), s, in, io.Discard, opts)
		if cont {
			pending = in + "\n" // like repl.Interactive accumulates lines
			continue
		}
		pending = ""
		errs = append(errs, es...)
	}
	if pending != "" {
		errs = append(errs, "input still incomplete at the end")
	}
	return c15Run{out: printed.String(), globals: globalsDump(s), errs: strings.Join(errs, " | ")}
}

// c15FeedGrol feeds the chunks through the repl.Grol Parse / Run session API (one persistent state).
func c15FeedGrol(chunks []string) c15Run {
	g := repl.New()
	var printed strings.Builder
	g.State.Out = &printed
	g.State.LogOut = &printed
	g.State.NoLog = true
	var errs []string
	for _, ch := range chunks {
		if err := g.Parse([]byte(ch)); err != nil {
			errs = append(errs, err.Error())
			continue
		}
		if err := g.Run(&printed); err != nil {
			errs = append(errs, err.Error())
		}
	}
	return c15Run{out: printed.String(), globals: globalsDump(g.State), errs: strings.Join(errs, " | ")}
}

func c15Script(stmts []string) *core.Viol {
	text := strings.Join(stmts, "\n")
	cs := core.Case{Kind: "script", Data: strings.Join(stmts, " ;; ")}
	whole := c15Feed([]string{text}, false)
	// a script is a case when it is error-free fed one statement at a time (the reading that needs no look-ahead)
	if one := c15Feed(stmts, true); one.errs != "" {
		return &core.Viol{Class: "not-a-case", Detail: one.errs, Case: cs}
	}
	n := len(stmts)
	for mask := 0; mask < 1<<(n-1); mask++ {
		var chunks []string
		cur := stmts[0]
		for i := 1; i < n; i++ {
			if mask&(1<<(i-1)) != 0 {
				chunks = append(chunks, cur)
				cur = stmts[i]
			} else {
				cur += "\n" + stmts[i]
			}
		}
		chunks = append(chunks, cur)
		if gg := c15FeedGrol(chunks); gg.out != whole.out || gg.globals != whole.globals || (gg.errs == "") != (whole.errs == "") {
			return &core.Viol{Class: "chunked-differs:session-api", Detail: fmt.Sprintf("chunks %q through repl.Grol Parse/Run: out=%q errs=%q ; whole: out=%q errs=%q", chunks, gg.out, gg.errs, whole.out, whole.errs), Case: cs, FindText: text}
		}
		got := c15Feed(chunks, true)
		if got.out != whole.out || got.globals != whole.globals || got.errs != whole.errs {
			what := "output"
			if got.out == whole.out {
				what = "globals"
				if got.globals == whole.globals {
					what = "errors"
				}
			}
			return &core.Viol{Class: "chunked-differs:" + what, Detail: fmt.Sprintf("chunks %q: out=%q errs=%q globals=%q ; whole: out=%q globals=%q", chunks, got.out, got.errs, trunc(got.globals, 300), whole.out, trunc(whole.globals, 300)), Case: cs, FindText: text}
		}
	}
	return nil
}

var c15ScriptStmts = func() []string {
	var out []string
	for _, s := range c01StmtAlphabet {
		if strings.Contains(s, "return") && !strings.Contains(s, "func") && !strings.Contains(s, "=>") {
			continue // no top-level return
		}
		if strings.HasPrefix(s, "error(") {
			continue
		}
		// a line starting with an operator continues the previous statement when the script is parsed whole
		// (newlines do not end expressions): such lines are not statement boundaries of the script
		if strings.IndexAny(s[:1], "+-^([{") == 0 {
			continue
		}
		out = append(out, s)
	}
	// a macro whose body does work of its own at expansion time (defines and calls a function the program also has, with
	// a constant of the same name): the result does not depend on what the program evaluated before the expansion
	out = append(out, "KK = 3; func hk(x) { x * KK }; println(hk(2))",
		"mk5 = macro(y) { KK = 5; func hk(x) { x * KK }; if hk(2) == 10 { quote(\"ten\") } else { quote(\"not ten\") } }; println(mk5(1))",
		"mc = macro(y) { func cnt(n) { if n == 0 { 0 } else { 1 + cnt(n - 1) } }; if cnt(3) == 3 { quote(unquote(y)) } else { quote(0) } }; println(mc(7))", "func cnt(n) { 99 }; println(cnt(3))")
	out = append(out, "mq = macro(x) { quote(unquote(x) * 2) }", "w = mq(v + 1)", "println(mq(3))", "mr = macro(y) { quote(unquote(y) + 1) }", "println(mr(4))", "// a comment", "/* block\ncomment */", "long = [\n1,\n2,\n]"[0:0]+"long = [1,\n 2]", "s2 = \"multi\nline\"", "if v > 0 {\n println(\"pos\")\n} else {\n println(\"neg\")\n}")
	return out
}()

// ---- the interactive loop itself (the consumer that accumulates pending lines), driven through the real command ----

// c15InteractiveRun feeds the lines to `grol` reading its standard input interactively (line ends are carriage
// returns, as typed) and returns the lines the program printed with the OUT: prefix.
func c15InteractiveRun(grol, dir string, lines []string) (string, error) {
	cmd := exec.Command(grol, "-no-auto", "-quiet", "-max-duration", "20s")
	cmd.Dir = dir
	cmd.Env = append(os.Environ(), "GOMEMLIMIT=1GiB", "NO_COLOR=1", "TERM=dumb")
	in, err := cmd.StdinPipe()
	if err != nil {
		return "", err
	}
	var mu sync.Mutex
	var buf bytes.Buffer
	w := &lockedWriter{mu: &mu, b: &buf}
	cmd.Stdout, cmd.Stderr = w, w
	if err := cmd.Start(); err != nil {
		return "", err
	}
	_, _ = io.WriteString(in, strings.Join(lines, "\r")+"\rprintln(\"OUT:END\")\r")
	// the input stays open until the last line was evaluated (an end of input discards what is still pending)
	deadline := time.Now().Add(60 * time.Second)
	exited := make(chan struct{})
	go func() { _ = cmd.Wait(); close(exited) }()
	for time.Now().Before(deadline) {
		mu.Lock()
		done := strings.Contains(buf.String(), "\nOUT:END")
		mu.Unlock()
		if done {
			break
		}
		select {
		case <-exited:
			deadline = time.Now()
		case <-time.After(5 * time.Millisecond):
		}
	}
	_ = in.Close()
	select {
	case <-exited:
	case <-time.After(20 * time.Second):
		_ = cmd.Process.Kill()
		<-exited
	}
	mu.Lock()
	defer mu.Unlock()
	return c15OutLines(buf.String()), nil
}

type lockedWriter struct {
	mu *sync.Mutex
	b  *bytes.Buffer
}

func (l *lockedWriter) Write(p []byte) (int, error) {
	l.mu.Lock()
	defer l.mu.Unlock()
	return l.b.Write(p)
}

func c15OutLines(all string) string {
	var out []string
	for _, l := range strings.Split(strings.ReplaceAll(all, "\r", ""), "\n") {
		if strings.HasPrefix(l, "OUT:") {
			out = append(out, l)
		}
	}
	return strings.Join(out, "\n")
}

func c15Interactive(c *core.Ctx, bounds *[]string) {
	self, _ := os.Executable()
	grol := self + ".grol"
	if _, err := os.Stat(grol); err != nil {
		c.Note("cli-binary-missing", 1)
		return
	}
	dir, err := os.MkdirTemp("", "c15int")
	if err != nil {
		return
	}
	defer os.RemoveAll(dir)
	// the words the loop itself understands, as variables, alone on a line inside every open construct
	words := []string{"help", "history", "exit", "info", "quit", "!1", "!2"}
	constructs := [][2]string{{"x = [\n", "\n]"}, {"x = {\"k\":\n", "\n}"}, {"x = str(\n", "\n)"}, {"x = (\n", "\n)"}, {"x = 1 +\n", ""}, {"x = `a\n", "\nb`"},
		{"/* c\n", "\n*/ x = 1"}, {"x = if true {\n", "\n}"}, {"x = func() {\n", "\n}()"}, {"x = [1,\n2,\n", ",\n3]"}, {"x = \"a\" +\n`\n", "\n`"}}
	n := 0
	for ci, con := range constructs {
		for _, w := range words {
			key := fmt.Sprintf("interactive|%d|%s", ci, w)
			if !c.MineNoDedup("interactive", key) {
				continue
			}
			inner := w
			if strings.HasPrefix(w, "!") && !strings.Contains(con[0], "`") && !strings.HasPrefix(con[0], "/*") {
				continue // !1 is only text inside a string or a comment
			}
			script := "help = 7\nhistory = 8\nexit = 9\nquit = 10\n" + con[0] + inner + con[1] + "\nprintln(\"OUT:\", json(x))"
			cs := core.Case{Kind: "interactive", Data: script}
			c.Current(cs)
			notCase := false
			v := c.Run(func() *core.Viol {
				file := filepath.Join(dir, fmt.Sprintf("s%d_%d.gr", ci, n))
				_ = os.WriteFile(file, []byte(script+"\nprintln(\"OUT:END\")\n"), 0o644)
				wb, err := exec.Command(grol, "-no-auto", "-quiet", file).CombinedOutput()
				whole := c15OutLines(string(wb))
				if err != nil || !strings.Contains(whole, "OUT:END") {
					notCase = true
					return nil
				}
				got, err := c15InteractiveRun(grol, dir, strings.Split(script, "\n"))
				if err != nil {
					return nil
				}
				if !strings.Contains(got, "OUT:END") && !strings.Contains(script, "\nexit\n") {
					// the session did not get to its last line within the harness's patience (a loaded machine): no verdict
					notCase = true
					return nil
				}
				if got != whole {
					return &core.Viol{Class: "interactive-differs", Detail: fmt.Sprintf("typed a line at a time the script printed %q, evaluated as a file %q", got, whole), Case: cs, FindText: script}
				}
				return nil
			})
			n++
			o := "interactive-equal"
			if v != nil {
				o = v.Class
			}
			if notCase {
				c.CountNT(key, "not-a-case", false)
				continue
			}
			c.CountNT(key, o, true)
		}
	}
	*bounds = append(*bounds, fmt.Sprintf("interactive loop: %d open constructs x %d words the loop understands (help, history, exit, !n, ...) alone on a continuation line, typed a line at a time into the real grol command versus the same text as a file", len(constructs), len(words)))
}

// c15AutoLoadLines: a state file whose lines have every length around the scanner limits, loaded a line at a time by
// repl.AutoLoad under every option that bounds lengths, versus evaluated in one go.
func c15AutoLoadLines(c *core.Ctx, bounds *[]string) {
	lens := []int{40, 4000, 8001, 65535, 65536, 65537, 70000, 131073, 300000}
	n := 0
	for _, L := range lens {
		for _, kind := range []string{"func", "string", "lambda"} {
			for _, mvl := range []int{0, 100, 4000, 100000} {
				key := fmt.Sprintf("autoloadlines|%d|%s|%d", L, kind, mvl)
				if !c.MineNoDedup("autoloadlines", key) {
					continue
				}
				n++
				var long string
				switch kind {
				case "func":
					long = "func big(n){" + strings.Repeat("n=n+1 ", (L-20)/6) + "n}"
				case "string":
					long = "big=\"" + strings.Repeat("s", L-6) + "\""
				default:
					long = "big=n=>{" + strings.Repeat("n=n+1 ", (L-20)/6) + "n}"
				}
				text := "aa=1\n" + long + "\nzz=[aa,2]\n"
				cs := core.Case{Kind: "autoloadlines", Cfg: fmt.Sprint(mvl), Data: fmt.Sprintf("%s line of %d bytes between two short ones", kind, len(long))}
				c.Current(cs)
				v := c.Run(func() *core.Viol {
					dir, err := os.MkdirTemp("", "c15al")
					if err != nil {
						return nil
					}
					defer os.RemoveAll(dir)
					old, _ := os.Getwd()
					_ = os.Chdir(dir)
					defer func() { _ = os.Chdir(old) }()
					_ = os.WriteFile(".gr", []byte(text), 0o644)
					a := newSess(sessCfg{})
					lerr := repl.AutoLoad(a.s, repl.Options{AutoLoad: true, MaxValueLen: mvl})
					b := newSess(sessCfg{})
					r := implEval(b, text, 10000000)
					if r.isErr {
						return &core.Viol{Class: "HARNESS-autoloadlines", Detail: r.errText, Case: cs}
					}
					if ga, gb := globalsDump(a.s), globalsDump(b.s); ga != gb || lerr != nil {
						return &core.Viol{Class: "autoload-differs", Detail: fmt.Sprintf("MaxValueLen %d, %s line of %d bytes: loaded a line at a time (err %v) the globals are %s; evaluated at once %s", mvl, kind, len(long), lerr, trunc(ga, 200), trunc(gb, 200)), Case: cs}
					}
					return nil
				})
				o := "autoload-equal"
				if v != nil {
					o = v.Class
				}
				c.CountNT(key, o, o != "not-a-case")
			}
		}
	}
	*bounds = append(*bounds, fmt.Sprintf("state files with one line of each of %d lengths (40 .. 300000 bytes: named function, string, lambda) between short lines x MaxValueLen {0, 100, 4000, 100000}: repl.AutoLoad (a line at a time) versus evaluation in one go", len(lens)))
}

func runC15(c *core.Ctx) {
	// (no token.Init() here: resetting the interning table invalidates the token pointers the evaluator keeps, e.g.
	// for unquote, and the scripts with macros would silently stop being cases)
	opt := corpusOptFor(c)
	opt.mutations = 0 // byte mutations of the examples add nothing here: complete accepted programs only
	var prefixes int64
	var bounds []string
	c15Interactive(c, &bounds)
	c15AutoLoadLines(c, &bounds)
	// (the script family runs first: it is the cheaper one and must not be starved by the corpus when time is short)
	// scripts
	if !c.Expired() {
		depth := 3
		if !c.Quick() {
			depth = 4
		}
		alpha := c15ScriptStmts
		enumTuples(len(alpha), depth, func(idx []int) bool {
			if len(idx) < 2 {
				return true
			}
			if len(idx) == 4 {
				for _, x := range idx {
					if x >= 24 {
						return true
					}
				}
			}
			if len(idx) == 3 && c.Quick() {
				// quick tier: triples over the first 28 statements and the 10 added ones (macros, comments, multi-line)
				for _, x := range idx {
					if x >= 28 && x < len(alpha)-10 {
						return true
					}
				}
			}
			if c.P.Evals&0xff == 0 && c.Expired() {
				return false
			}
			stmts := make([]string, 0, len(idx)+1)
			stmts = append(stmts, "v = 2; w = 0; p = 1")
			for _, x := range idx {
				stmts = append(stmts, alpha[x])
			}
			key := strings.Join(stmts, " ;; ")
			if !c.MineNoDedup("script", key) {
				return true
			}
			c.Current(core.Case{Kind: "script", Data: key})
			vv := c15Script(stmts)
			if vv != nil && vv.Class == "not-a-case" {
				c.CountNT("script: "+trunc(key, 160), "not-a-case", false)
				return true
			}
			var v *core.Viol
			if vv != nil {
				v = c.Run(func() *core.Viol { return c15Script(stmts) })
			}
			out := "chunked-same"
			if v != nil {
				out = v.Class
			}
			c.CountNT("script: "+trunc(key, 160), out, true)
			c.P.Traces++
			return true
		})
		bounds = append(bounds, fmt.Sprintf("scripts: every sequence of 2..%d statements (quick: triples over 38 of them) of a %d-statement alphabet (incl. macro definition/use, multi-line statements, comments) that runs without error, every split into consecutive chunks fed through repl.EvalOne in line mode on one state (accumulating while continuation is requested): printed output and final SaveGlobals text equal the whole-script run", depth, len(alpha)))
	}
	_, cb := forEachCorpusText(c, opt, func(fam, text string) bool {
		var isCase bool
		var n int
		cs := core.BytesCase(fam, "whole", []byte(text))
		c.Current(cs)
		v := c.Run(func() *core.Viol {
			vv, ic, k := c15One(text, fam)
			isCase, n = ic, k
			return vv
		})
		prefixes += int64(n)
		out := "not-a-case"
		if isCase {
			out = "same-tree"
		}
		if v != nil {
			out = v.Class
		}
		c.CountNT(fam+": "+trunc(text, 120), out, isCase)
		return true
	})
	c.Note("open_prefixes_checked", prefixes)
	bounds = append(bounds, cb...)
	bounds = append(bounds, "for each accepted text: line-mode tree == file-mode tree, and every cut at a token boundary inside an unclosed ( [ { or right after a binary operator, and every cut inside a string or block comment, must request continuation without error")
	c.P.Bound = strings.Join(bounds, "; ")
}

func init() {
	core.Register(&core.Check{
		ID:          "C15",
		Level:       "exploration",
		Rule:        "the source-text corpus of C02 (grammar trees by size, two-level trees, adjacency, literals, comments, shipped programs): every accepted text is parsed in line mode and file mode (equal canonical dumps incl. comment placement flags, no error, no continuation); every proper prefix ending at a token boundary that the harness's own bracket/operator tracker classifies as inside an unclosed ( [ {, or right after a binary operator, and every cut inside a string or block comment token, must set ContinuationNeeded and report no error; scripts (all short statement sequences that run without error) are fed in every split into consecutive chunks through repl.EvalOne in line mode on one persistent state and must give the same printed output and final globals as the whole script. Non-trivial = accepted texts / error-free scripts. The interactive loop itself: open constructs x the words the loop understands (help, history, exit, !n) alone on a continuation line, typed a line at a time into the real grol command versus the same text as a file; state files with a line of every length around the scanner limits x MaxValueLen options: repl.AutoLoad versus evaluation in one go. Round 7: 32 constructs (every way the expression parser returns) each repeated 12000 times; scripts with macros whose bodies define and call functions at expansion time.",
		Assume:      []string{"token boundaries are taken from the lexer (checked by C16); the bracket/operator tracker is the harness's own"},
		QuickCap:    240 * time.Second,
		ThoroughCap: 20 * time.Minute,
		HangLimit:   240 * time.Second,
		Run:         runC15,
		Replay: func(c *core.Ctx, cs core.Case) *core.Viol {
			if cs.Kind == "script" {
				v := c15Script(strings.Split(cs.Data, " ;; "))
				if v != nil && v.Class == "not-a-case" {
					return nil
				}
				return v
			}
			if strings.HasPrefix(cs.Cfg, "prefix:") {
				r := parseText(cs.Bytes(), true)
				switch {
				case r.panic != "":
					return &core.Viol{Class: "prefix-" + r.panic, Case: cs}
				case len(r.errs) > 0:
					return &core.Viol{Class: "prefix-error:" + strings.TrimPrefix(cs.Cfg, "prefix:"), Detail: firstLine(r.errs[0]), Case: cs}
				case !r.cont:
					return &core.Viol{Class: "prefix-no-continuation:" + strings.TrimPrefix(cs.Cfg, "prefix:"), Case: cs}
				}
				return nil
			}
			v, _, _ := c15One(string(cs.Bytes()), cs.Kind)
			return v
		},
	})
}
