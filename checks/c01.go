package checks

import (
	"context"
	"fmt"
	"fortio.org/log"
	"math"
	"regexp"
	"runtime/debug"
	"strings"
	"time"

	"grol.io/grol/eval"
	"grol.io/grol/object"
	"verif/internal/core"
	"verif/internal/gen"
	"verif/internal/obs"
	"verif/internal/ref"
)

// C01 — evaluation agrees with the reference semantics.

// countCtx is a context whose Err() turns non-nil at the k-th poll (owned "time").
type countCtx struct {
	context.Context
	n, limit int
}

func (c *countCtx) Err() error {
	c.n++
	if c.limit >= 0 && c.n > c.limit {
		return context.Canceled
	}
	return nil
}

type implRes struct {
	out      string
	val      string // dump of the final value
	isErr    bool
	errText  string
	errStack string // the stack the error object carries (function texts, innermost first)
	panicked string
	budget   bool
}

// implEval drives the implementation like repl.evalOne does (parse, macros, Eval) on a given state, under the
// harness's own recover, with a step budget.
func implEval(x *sess, src string, budget int) (res implRes) {
	defer func() { observe("eval", res.out, res.val, res.errText, res.panicked) }()
	eval.VerifCacheOff = x.cfg.cacheOff
	defer func() { eval.VerifCacheOff = false }()
	x.out.Reset()
	savedOut := x.s.Out
	cc := &countCtx{Context: context.Background(), limit: budget}
	x.s.Context = cc
	if x.noContext {
		x.s.Context = nil // a library user calling State.Eval on a state it made itself: no context at all
	}
	defer func() {
		if r := recover(); r != nil {
			res.panicked = panicClass(r, debug.Stack())
			res.isErr = true
			res.errText = fmt.Sprint(r)
			x.s.Reset()
			x.s.Out = savedOut
			res.out = x.out.String()
		}
		x.s.Context = nil
	}()
	pr := parseText([]byte(src), false)
	if !pr.clean() {
		res.isErr = true
		res.errText = "parse: " + strings.Join(pr.errs, ";") + pr.panic
		return res
	}
	x.s.DefineMacros(pr.prog)
	var o object.Object
	if x.s.NumMacros() > 0 {
		o = x.s.Eval(x.s.ExpandMacros(pr.prog))
	} else {
		o = x.s.Eval(pr.prog)
	}
	o = object.Value(o)
	res.out = x.out.String()
	if cc.n > budget && budget >= 0 {
		res.budget = true
	}
	if o.Type() == object.ERROR {
		res.isErr = true
		res.errText = o.(object.Error).Value
		res.errStack = strings.Join(o.(object.Error).Stack, " <- ")
		return res
	}
	res.val = obs.DumpValue(o)
	return res
}

// c01Compare runs one program (or history) on the reference and on the implementation in the plain
// configuration (no registers, cache off) and in the default configuration.
func c01Compare(kind string, inputs []string) *core.Viol {
	text := strings.Join(inputs, " ;; ")
	cs := core.Case{Kind: kind, Data: text}
	in := ref.NewInterp()
	var want []ref.Result
	for _, src := range inputs {
		r := in.Run(src)
		if r.Unsup != "" {
			return &core.Viol{Class: "unsupported", Detail: r.Unsup, Case: cs}
		}
		want = append(want, r)
	}
	cfgs := []sessCfg{{noReg: true, cacheOff: true}, {}}
	if kind == "stmt" && len(inputs) <= 2 {
		cfgs = append(cfgs, sessCfg{}) // third: the default configuration evaluated without any context
		if strings.Count(text, ";")+strings.Count(text, "\n") <= 6 {
			cfgs = append(cfgs, sessCfg{}) // fourth (shorter programs): the default configuration at debug log level
		}
	}
	for ci, cfg := range cfgs {
		name := "plain"
		if !cfg.noReg {
			name = "default"
		}
		x := newSess(cfg)
		if ci == 2 {
			name = "no-context"
			x.noContext = true
		}
		if ci == 3 {
			name = "debug-log-level"
			prev := log.GetLogLevel()
			log.SetLogLevelQuiet(log.Debug)
			defer log.SetLogLevelQuiet(prev)
		}
		for i, src := range inputs {
			got := implEval(x, src, 300000)
			if got.budget {
				return &core.Viol{Class: "unsupported", Detail: "implementation step budget", Case: cs}
			}
			w := want[i]
			step := ""
			if len(inputs) > 1 {
				step = fmt.Sprintf(" at input %d (%q)", i, src)
			}
			mk := func(class, detail string) *core.Viol {
				return &core.Viol{Class: name + ":" + class, Detail: detail + step, Case: cs, FindText: text}
			}
			if got.out != w.Out {
				return mk("output-differs["+c01Outcome(w, got)+"]", fmt.Sprintf("printed %q, reference %q (impl err=%v %q; ref err=%v %s)", got.out, w.Out, got.isErr, got.errText, w.IsErr, ref.Inspect(w.Val)))
			}
			if got.isErr != w.IsErr {
				return mk(c01Outcome(w, got), fmt.Sprintf("implementation: err=%v %q value %s ; reference: err=%v value %s", got.isErr, got.errText, got.val, w.IsErr, ref.Inspect(w.Val)))
			}
			if !w.IsErr && w.Val.Kind != ref.KFunc && got.val != ref.Dump(w.Val) {
				return mk("value-differs", fmt.Sprintf("implementation value %s, reference %s", got.val, ref.Dump(w.Val)))
			}
			if !w.IsErr && w.Val.Kind == ref.KFunc && got.val != "FN" {
				return mk("value-differs", fmt.Sprintf("implementation value %s, reference a function", got.val))
			}
		}
	}
	return nil
}

func c01Outcome(w ref.Result, got implRes) string {
	r := "ref=ok"
	if w.IsErr {
		r = "ref=err"
	}
	g := "impl=ok"
	if got.panicked != "" {
		g = "impl=" + got.panicked
	} else if got.isErr {
		g = "impl=err:" + errTemplate(got.errText)
	}
	return r + "|" + g
}

// ---- value universes ----

func c01Values(full bool) []ref.Value {
	vs := []ref.Value{ref.Int(0), ref.Int(1), ref.Int(-1), ref.Int(2), ref.Int(7), ref.Int(63), ref.Int(64), ref.Int(1 << 62), ref.Int(math.MaxInt64), ref.Int(math.MinInt64),
		ref.Float(0), ref.Float(math.Copysign(0, -1)), ref.Float(1.5), ref.Float(1e300), ref.Float(math.NaN()), ref.Float(math.Inf(1)), ref.Float(9223372036854775808.0), ref.Float(-9223372036854775808.0), ref.Float(9007199254740992.0), ref.Int(9007199254740993),
		ref.Bool(true), ref.Bool(false), ref.Str(""), ref.Str("a"), ref.Str("ab"), ref.Nil,
		ref.Arr(ref.Int(1), ref.Int(2)), ref.NewMap(ref.Pair{K: ref.Int(1), V: ref.Int(2)})}
	if full {
		vs = append(vs, ref.Int(-64), ref.Int(65), ref.Int(-7), ref.Int(3), ref.Float(-1.5), ref.Float(2.0), ref.Float(math.Inf(-1)), ref.Str("é"), ref.Arr(),
			ref.NewMap(), ref.Arr(ref.Str("a")), ref.Int(math.MaxInt64-1), ref.Int(1<<31), ref.Float(0.5), ref.Str("abc"), ref.Arr(ref.Int(1), ref.Int(2), ref.Int(3), ref.Int(4), ref.Int(5), ref.Int(6), ref.Int(7), ref.Int(8), ref.Int(9)))
	}
	return vs
}

var c01Infix = []string{"+", "-", "*", "/", "%", "==", "!=", "<", "<=", ">", ">=", "<<", ">>", "&", "|", "^", "&&", "||", ":"}
var c01Prefix = []string{"-", "!", "+", "~", "^"}

func runC01(c *core.Ctx) {
	var bounds []string
	do := func(fam string, inputs ...string) bool {
		if c.P.Evals&0xff == 0 && c.Expired() {
			return false
		}
		key := strings.Join(inputs, " ;; ")
		if !c.Mine(fam, key) {
			return true
		}
		c.Current(core.Case{Kind: fam, Data: key})
		var v *core.Viol
		vv := c01Compare(fam, inputs)
		if vv != nil && vv.Class == "unsupported" {
			c.Note("unsupported_by_reference", 1)
			c.Count(fam+": "+trunc(key, 160), "unsupported", false)
			return true
		}
		if vv != nil {
			v = c.Run(func() *core.Viol { return c01Compare(fam, inputs) })
		}
		out := "agree"
		if v != nil {
			out = v.Class
		}
		c.Count(fam+": "+trunc(key, 160), out, true)
		c.P.Traces++
		c.P.Transitions += int64(len(inputs)) * 3
		return true
	}
	ok := true
	// G-val: every infix operator x every ordered pair of boundary values; every prefix operator x every value
	vals := c01Values(true)
	for _, op := range c01Infix {
		for _, l := range vals {
			for _, r := range vals {
				if op == "|" && l.Kind == ref.KString {
					continue
				}
				if ok = do("val", "("+ref.Source(l)+") "+op+" ("+ref.Source(r)+")"); !ok {
					break
				}
			}
		}
	}
	for _, op := range c01Prefix {
		for _, v := range vals {
			do("val", op+"("+ref.Source(v)+")")
		}
	}
	bounds = append(bounds, fmt.Sprintf("G-val: %d infix operators x all ordered pairs of %d boundary values, %d prefix operators x all values", len(c01Infix), len(vals), len(c01Prefix)))
	// G-expr: a op1 b op2 c (op3 d) without parentheses: precedence and associativity, typed leaves
	if ok {
		leaves := []string{"1", "2", "7", "1.5", "true", "false", `"a"`}
		ops := append([]string{}, c01Infix...)
		for _, o1 := range ops {
			for _, o2 := range ops {
				for _, a := range leaves {
					for _, b := range leaves {
						for _, d := range leaves {
							if (o1 == "|" && a[0] == '"') || (o2 == "|" && (a[0] == '"' || b[0] == '"')) {
								continue
							}
							if ok = do("expr2", a+" "+o1+" "+b+" "+o2+" "+d); !ok {
								break
							}
						}
					}
				}
			}
		}
		// prefix operators inside binary expressions
		for _, p := range []string{"-", "!", "~", "+"} {
			for _, o1 := range ops {
				for _, a := range leaves {
					for _, b := range leaves {
						do("expr-prefix", p+a+" "+o1+" "+b)
						do("expr-prefix", a+" "+o1+" "+p+b)
						do("expr-prefix", p+"("+a+" "+o1+" "+b+")")
					}
				}
			}
		}
		bounds = append(bounds, fmt.Sprintf("G-expr: a op1 b op2 c for all %d^2 operator pairs x %d^3 typed leaves, prefix operators in every operand position", len(ops), len(leaves)))
		if ok {
			small := []string{"2", "7", "1.5", "true"}
			for _, o1 := range ops {
				for _, o2 := range ops {
					for _, o3 := range ops {
						for _, a := range small {
							for _, b := range small {
								for _, d := range small {
									if ok = do("expr3", a+" "+o1+" "+b+" "+o2+" "+d+" "+o3+" "+a); !ok {
										break
									}
								}
							}
						}
					}
				}
			}
			bounds = append(bounds, "G-expr: 3 operators, all operator triples x 4^3 leaves")
		}
	}
	// G-index: containers of every size 0..10 x index forms x indices -12..12, nil, 1.5, "a"
	if ok {
		var idxs []string
		for i := -12; i <= 12; i++ {
			idxs = append(idxs, fmt.Sprint(i))
		}
		idxs = append(idxs, "nil", "1.5", `"a"`, "true")
		for n := 0; n <= 10; n++ {
			var els, pairs []string
			for i := 0; i < n; i++ {
				els = append(els, fmt.Sprint(i*10))
				pairs = append(pairs, fmt.Sprintf("%d:%d", i, i*10))
			}
			conts := []string{"[" + strings.Join(els, ",") + "]", "{" + strings.Join(pairs, ",") + "}", `"` + strings.Repeat("xy", n)[:n] + `"`}
			if n == 0 {
				conts = append(conts, "nil", "5", "true")
			}
			for _, ct := range conts {
				for _, i := range idxs {
					do("index", "x = "+ct+"; x["+i+"]")
					do("index", "x = "+ct+"; x["+i+":]")
					for _, j := range idxs {
						if true {
							do("index", "x = "+ct+"; x["+i+":"+j+"]")
						}
					}
					do("index", "x = "+ct+"; x["+i+"] = 99; x")
				}
				do("index", "x = "+ct+"; x.k")
				do("index", "x = "+ct+"; x.k = 1; x")
				do("index", "x = "+ct+"; [len(x), first(x), rest(x)]")
			}
		}
		bounds = append(bounds, "G-index: strings/arrays/maps of every size 0..10 x x[i], x[i:], x[i:j], x[i]=v, x.k for i,j in -12..12, nil, 1.5, \"a\", true")
	}
	// G-stmt: skeleton x statement-alphabet sequences (control flow x scoping x functions)
	if ok {
		ok = c01Stmt(c, do)
		bounds = append(bounds, "G-stmt: 4 skeletons x every sequence of <=2 statements of the ~90-statement alphabet and every sequence of 3 of its first 30 (thorough: 64) statements (assignment forms, ++/--, if/else, all loop forms with break/continue/return/error at each position, function and lambda definitions, closures, recursion, variadics, println)")
	}
	// G-syn wild programs evaluated (reference and implementation must agree also on ill-typed programs)
	if ok {
		full := gen.FullCfg()
		full.Builtins = []string{"len", "first", "rest", "println", "print", "error", "catch", "del"}
		maxSize := 4
		if !c.Quick() {
			maxSize = 5
		}
		for size := 1; size <= maxSize && ok; size++ {
			ok = full.EnumStmt(size, func(n *gen.N) bool {
				if !gen.ControlWellFormed([]*gen.N{n}) {
					return true // break/continue/return outside their construct: no documented semantics (left to C07)
				}
				// (a new line does not end a statement in grol: a line starting with ++ -- + - ^ ( [ would continue the
				// previous one)
				src := gen.Render([]*gen.N{n}, gen.Policy{StmtSep: "\n"})
				if reLineStartsWithOperator.MatchString(src) {
					return true // that line continues the previous statement: another program than the tree rendered
				}
				return do("wild", "a = 3; b = [1, 2]\n"+src)
			})
		}
		bounds = append(bounds, fmt.Sprintf("G-syn: every tree of size <=%d whose break/continue/return are placed in their construct, evaluated with a=3, b=[1,2] bound", maxSize))
	}
	c.P.States = c.P.Traces
	if ok {
		// the error that comes out of a construct is the error its operand raised (the reference evaluator propagates
		// the error object itself; its general comparison declines once a message is observed, so this family has its own
		// oracle: the message caught around the construct is the one given to error())
		ctxs := []string{"[1, 2][%s:]", "[1, 2][0:%s]", "[1, 2][%s]", "{1: 2}[%s]", "\"ab\"[%s]", "if %s { 1 }", "for %s { 1 }", "for x = %s { 1 }", "-%s", "!%s", "%s + 1", "1 + %s", "1 < %s", "%s == 1", "true && %s", "false || %s",
			"[%s]", "[1, %s]", "{%s: 1}", "{1: %s}", "h(%s)", "h(1, %s)", "len(%s)", "first(%s)", "rest(%s)", "str(%s)", "max(1, %s)", "sprintf(\"%%v\", %s)", "println(%s)", "print(1, %s)", "x = %s", "m = {}; m[%s] = 1", "m = {}; m[1] = %s", "m = {}; m.k = %s",
			"a = [1]; a[0] = %s", "a = [1]; a[%s] = 1", "del(m[%s])", "(x => x)(%s)", "return %s", "func() { return %s }()", "func() { %s; 1 }()", "[1, 2][0:1][%s]", "{\"k\": [%s]}", "((%s))", "1:%s", "%s:2", "json(%s)", "keys(%s)", "eval(\"1\") + %s"}
		n := 0
		for _, cx := range ctxs {
			for _, scope := range []string{"%s", "func() { %s }()", "for 1 { %s }"} {
				n++
				body := strings.ReplaceAll(strings.ReplaceAll(cx, "%%", "%"), "%s", "error(\"MARK7\")")
				src := "h = func(..) { 1 }; m = {}; println(catch(" + strings.Replace(scope, "%s", "func() { "+body+" }()", 1) + ").value)"
				if !c.Mine("errid", src) {
					continue
				}
				cs := core.Case{Kind: "errid", Data: src}
				c.Current(cs)
				v := c.Run(func() *core.Viol {
					for _, cfg := range []sessCfg{{noReg: true, cacheOff: true}, {}} {
						r := runProgram(cfg, src)
						if r.panicked || len(r.errs) > 0 || r.out != "MARK7\n" {
							return &core.Viol{Class: "error-not-the-one-raised", Detail: fmt.Sprintf("cfg %+v: %s", cfg, r), Case: cs}
						}
					}
					// and on a state without any context (State.Eval called by a library user)
					x := newSess(sessCfg{})
					x.noContext = true
					if r := implEval(x, src, 0); r.isErr || r.out != "MARK7\n" {
						return &core.Viol{Class: "error-not-the-one-raised", Detail: fmt.Sprintf("no context: out=%q err=%q %s", r.out, r.errText, r.panicked), Case: cs}
					}
					// the construct repeated more often than the evaluator's nesting bound: nothing may accumulate per caught error
					leak := "h = func(..) { 1 }; m = {}; for 340000 { catch(" + strings.Replace(scope, "%s", "func() { "+body+" }()", 1) + ") }; println(\"done\")"
					if r := runProgram(sessCfg{}, leak); r.panicked || len(r.errs) > 0 || !strings.HasSuffix(r.out, "done\n") {
						return &core.Viol{Class: "caught-errors-accumulate", Detail: fmt.Sprintf("340000 repetitions: %s", trunc(r.String(), 300)), Case: cs}
					}
					return nil
				})
				o := "same"
				if v != nil {
					o = v.Class
				}
				c.CountNT("errid: "+src, o, true)
			}
		}
		bounds = append(bounds, fmt.Sprintf("error identity: %d constructs x 3 scopes whose operand raises error(\"MARK7\"): the message caught around the construct is MARK7 (also on a state without context), and 340000 repetitions of the caught construct still run", len(ctxs)))
	}
	c.P.Bound = strings.Join(bounds, "; ") + "; each in the plain (no registers, cache off) and default configuration; the statement family also on a state without context and (programs of up to 6 statements) at debug log level"
}

var reLineStartsWithOperator = regexp.MustCompile(`\n\s*(\+|-|\^|\(|\[)`)

var c01StmtAlphabet = []string{
	"v = v + 1", "v := 5", "w = v", "w := v * 2", "v++", "v--", "++v", "p = p + 1", "p := 9",
	"if v > 1 { v = 0 }", "if v > 1 { w = 1 } else { w = 2 }", "if p == 1 { return 7 }",
	"for i = 3 { v = v + i }", "for i = 1:4 { w = w + i }", "for 2 { v = v * 2 }", "for v < 5 { v = v + 2 }",
	"for e = [4, 5] { w = w + e }", "for kv = {1: 2} { w = w + kv.value }", "for ch = \"ab\" { println(ch) }",
	"for i = 4 { if i == 1 { continue }; if i == 3 { break }; w = w + i }",
	"for v < 9 { v = v + 1; if v == 4 { break } }", "for v < 6 { v = v + 1; if v == 3 { continue }; w = w + v }",
	"for i = 3 { if i == 1 { return i } }", "for e = [1, 2, 3] { if e == 2 { break }; println(e) }",
	"for i = 2 { for j = 2 { if j == 1 { break }; w = w + 10 * i + j } }",
	"g = func() { v }", "g = func() { v = v + 10 }", "g = () => v + w", "w = g()", "g()",
	"h = func(a, b) { a - b }", "w = h(v, 1)", "func k(n) { if n <= 0 { 0 } else { n + k(n - 1) } }", "w = k(3)",
	"mk = func(n) { func(x) { x + n } }", "w = mk(2)(v)", "fa = func(a, ..) { len(..) + a }", "w = fa(1, 2, 3)",
	"r = n => if n <= 0 { 0 } else { 1 + self(n - 1) }", "w = r(3)",
	"arr = [v, w]", "arr[0] = 100", "w = arr[0] + arr[-1]", "m = {\"a\": v}", "m.a = m.a + 1", "w = m.a",
	"keep = func() { [v, w] }(); v = 77; println(keep)", "keep = func() { {\"k\": v} }(); v = 78; println(keep)", "keep = func(..) { .. }(v, w); v = 79; println(keep)",
	"fs = func() { v }; keep = [fs(), fs() + 1]; v = 81; println(keep)", "s1 = \"str\"; func() { println(s1, [s1], len(s1)) }()", "func() { println(v == 2, v < w, -v, !(v == w), [v][0]) }()",
	"func() { if v == 2 { println(\"two\") }; for v > 100 { break }; for e = [v] { println(e) } }()", "aa = [v, w]; func() { aa[0] = 5; println(aa) }(); println(aa)", "func() { m2 = {v: w}; println(m2, m2[v]) }()",
	"print(v++, \" \"); print(v, \"\\n\")", "func() { x = v; x = x + 1; println(x, v) }()", "lst = [v]; v = 60; println(lst)",
	"flag = v == 2; func() { if flag { println(\"yes\") } else { println(\"no\") } }()", "flag = true; n3 = 3; func() { for flag { flag = false; println(\"once\") }; for i = n3 { println(i) }; for n3 { print(\".\") } }()",
	"lst2 = [v, w]; mp2 = {1: v}; func() { for e = lst2 { println(e) }; for kv = mp2 { println(kv.key, kv.value) }; println(len(lst2), first(lst2), rest(lst2)) }()",
	"func(n) { m3 = {\"a\": n}; c3 = catch(n); a3 = [0]; a3[0] = n; m3.b = n; n = n + 1; println(m3, c3.value, a3) }(v)", "nl = nil; func() { println(nl == nil, !nl, nl) }()", "st = \"xy\"; func() { for ch = st { print(ch, \"-\") }; println(st[0], st[1:], st + st, st * 2) }()",
	"println(v, w)", "println(p)", "error(\"boom\")", "x = v; v = 50; w = x", "del(w)", "w = [v, p][1]", "t = v; func up() { t = t + 1 }; up(); w = t",
	// containers whose representation is large while their length is back under the small/large threshold
	"mm = {1: 1, 2: 2, 3: 3, 4: 4, 5: 5}; del(mm[5]); mb = mm; mb[1] = v; println(mm, mb)",
	"md = {1: 1, 1: 2, 1: 3, 1: 4, 1: 5}; me = md; me[1] = v; del(me[1]); println(md, me)",
	"ma = [1, 2, 3, 4, 5, 6, 7, 8, 9, 10][0:2]; mc = ma; mc[0] = v; println(ma, mc)",
	// a global function replaced from inside a function that read it first; derived arrays that could share storage;
	// a counted loop left by an error that is caught
	"inc = x => x + 1; func fi(n) { inc(n) * 2 }; func swap() { old = inc; inc = x => x + 10; old }; println(fi(1)); swap(); println(fi(1))",
	"aa = [0, 1, 2, 3, 4, 5, 6, 7, 8, 9, 10, 11]; bb = aa[0:9]; cc = bb + 99; println(aa[9], cc)", "xx = [0, 1, 2, 3, 4, 5, 6, 7, 8, 9]; yy = xx + 10; pp = yy + 11; qq = yy + 12; println(pp[10], qq[10], yy)",
	"i = 10; r = catch(func() { for i = 0:5 { if i == 2 { error(\"boom\") } } }()); println(r.err, i)", "println(catch(for j = 3 { if j == 1 { error(\"e\") } }).err, j)",
	"println(catch(for j = 3 { catch(for k = 2 { if k == 1 { error(\"in\") } }); j }), j, k)",
	// the value of a loop expression
	"w = for i = 0:5 { if i == 3 { break }; i }", "w = for i = 4 { i * 2 }", "w = [for e = [4, 5, 6] { if e == 6 { break }; e }, for v < 6 { v = v + 1; v }]",
	// a trailing array argument is spread into the variadic parameters, also when it is a variable of an outer scope
	"ar = [v, 4]; fv = func(a, ..) { [a, ..] }; println(fv(1, ar), func() { fv(1, ar) }(), func() { max(ar) }())",
	// element deletion / insertion on a map that lives in an outer scope
	"w = {\"k\": v, \"j\": 2}", "del(w.k); println(w)", "println(del(w[\"j\"]), w)", "w.z = 3; println(w)", "func dk() { del(w.k); w.y = 1 }; dk(); println(w)",
	// errors raised while building a literal or an argument list abort the statement
	"w = {\"a\": 1 / 0}; println(\"after\", w)", "w = {1 / 0: 1}; println(\"after\", w)", "w = [v, 1 / 0]; println(\"after\", w)", "w = h(v, 1 / 0); println(\"after\", w)",
	"w = {\"a\": {\"b\": [error(\"deep\")]}}; println(\"after\", w)", "w = len([1 % 0]); println(\"after\")", "w = {}; w[1 / 0] = 5; println(\"after\", w)", "w = [1]; w[0] = 1 / 0; println(\"after\", w)", "w = [1, 2][1 / 0:]; println(\"after\")",
	// side effects between the operands of one construct inside a function, on a variable of an outer scope: left to right
	"w = 1; func bump() { w = w + 10; 0 }; func t1() { [w, bump(), w] }; println(t1(), w)", "w = 1; func bump() { w = w + 10; 0 }; func g2(x, y) { [x, y] }; func t2() { g2(w, bump()) }; println(t2())",
	"w = 1; func bump() { w = w + 10; 0 }; func t3() { {w: bump(), \"k\": w} }; println(t3())", "w = 1; func bump() { w = w + 10; 0 }; func t4() { w + bump() + w }; println(t4())",
	"w = 3; func fr() { t = 0; for i = 1:w { t = t + i }; t }; println(fr())", "w = 2; func fr2() { for i = w:v + 2 { println(i) } }; fr2()",
	"w = 1; func bump() { w = w + 10; 0 }; func t5() { println(w, bump(), w); print(w, bump(), w, \"\\n\") }; t5()", "w = 1; func bump() { w = w + 10; 0 }; func t6() { error(w, bump(), w) }; println(catch(t6()).value)",
	// an index expression with a side effect on the very variable being assigned
	"w = [0, 0, 0]; func nxi() { w = w + [9]; 1 }; w[nxi()] = 5; println(w)", "w = []; func slot() { w = w + [0]; len(w) - 1 }; w[slot()] = \"a\"; w[slot()] = \"b\"; println(w)",
	"w = {\"n\": 0}; func nk() { w.n = w.n + 1; w.n }; w[nk()] = \"x\"; println(w)", "w = [0, 0]; func() { w[func() { w = w + [7]; 0 }()] = 1 }(); println(w)",
	// (known finding C01-K1: the right-hand side of `for v = f()` is evaluated twice before the first iteration)
	"w = 0; func nx9() { w = w + 1; w < 3 }; for ok9 = nx9() { println(ok9, w) }",
	// closures made by one factory: each has its own captured variables, also when they call each other
	"func mk(q) { (o) => { if o == nil { q } else { o(nil) } } }; ca = mk(1); cb = mk(2); println(ca(cb), cb(ca), ca(ca))",
	"func counter(s) { c = s; () => { c = c + 1; c } }; ct = [counter(0), counter(0)]; println([ct[0](), ct[0](), ct[1]()])",
	"func counter(s) { c = s; [() => { c = c + 1; c }] }; c1 = counter(v); c2 = counter(v); println(c1[0](), c1[0](), c2[0]())",
	// the error that comes out is the one that was raised (its message observed through catch)
	"println(catch([1, 2][error(\"e1\"):]).value)", "println(catch([1, 2][0:error(\"e2\")]).value)", "println(catch(if error(\"e3\") { 1 }).value)", "println(catch([1, 2][error(\"e4\")]).value)",
	"println(catch({1: 2}[error(\"e5\")]).value)", "println(catch(-error(\"e6\")).value)", "println(catch(for error(\"e7\") { 1 }).value)", "println(catch(h(error(\"e8\"), 1)).value)", "println(catch(len(error(\"e9\"))).value)",
}

func c01Stmt(c *core.Ctx, do func(fam string, inputs ...string) bool) bool {
	skeletons := []string{
		"v = 2; w = 0; p = 1\n%s\nprintln(v, w, p)",
		"v = 2; w = 0\nfunc f(p) { %s; [v, w, p] }\nprintln(f(1)); println(v, w)",
		"v = 2; w = 0\nf = func(p) { v := 3; %s; [v, w, p] }\nprintln(f(1)); println(v, w)",
		"w = 0\nfunc f(v, p) { g2 = func() { %s; [v, w, p] }; g2() }\nprintln(f(2, 1)); println(w)",
	}
	depth := 3
	limit3 := 30
	if !c.Quick() {
		limit3 = 64
	}
	alpha := c01StmtAlphabet
	return enumTuples(len(alpha), depth, func(idx []int) bool {
		if len(idx) == 0 {
			return true
		}
		if len(idx) == 3 {
			// three-statement bodies over the first 30 (thorough: 64) statements only (bounded product)
			for _, x := range idx {
				if x >= limit3 {
					return true
				}
			}
		}
		parts := make([]string, len(idx))
		for i, x := range idx {
			parts[i] = alpha[x]
		}
		body := strings.Join(parts, "; ")
		for _, sk := range skeletons {
			if !do("stmt", strings.Replace(sk, "%s", body, 1)) {
				return false
			}
		}
		return true
	})
}

func init() {
	core.Register(&core.Check{
		ID:          "C01",
		Level:       "model_checking",
		Rule:        "programs enumerated exhaustively from typed families (G-val: operators x boundary operand pairs; G-expr: unparenthesised operator chains x typed leaves, testing precedence/associativity through an independent parser; G-index: containers of size 0..10 x index/slice/assignment forms x indices; G-stmt: skeletons x all short sequences of a statement alphabet covering every loop form, control statement, scoping form, closures, recursion, variadics; G-syn: all small syntax trees, mostly ill-typed). Each program runs on an independent reference evaluator (own tokenizer, own precedence-climbing parser, immutable values) and on the implementation in the plain configuration (registers off, cache off) and the default one; printed text, final value (type-tagged structural dump) and error/no-error are compared. Programs the reference does not model are counted as unsupported and not compared. Non-trivial = compared; distinct by program text. Also: the statement family on a state without any context (State.Eval as a library calls it); error identity: 49 constructs x 3 scopes whose operand raises a marked error - the message caught around the construct is that one, also without context, and 340000 repetitions of the caught construct still run (nothing accumulates per caught error). Round 7: print arguments, array elements, call arguments, map keys and index expressions whose evaluation changes an outer variable read by a neighbour (left to right); closures of one factory calling each other; range bounds held by outer variables; the statement family (short programs) at debug log level.",
		Assume:      []string{"reference semantics of DESIGN.md §5 (internal/ref)", "error message wording is never compared"},
		QuickCap:    100 * time.Second,
		ThoroughCap: 20 * time.Minute,
		HangLimit:   240 * time.Second,
		Run:         runC01,
		Replay: func(c *core.Ctx, cs core.Case) *core.Viol {
			v := c01Compare(cs.Kind, strings.Split(cs.Data, " ;; "))
			if v != nil && v.Class == "unsupported" {
				return nil
			}
			return v
		},
	})
}
