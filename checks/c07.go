package checks

import (
	"fmt"
	"fortio.org/log"
	"os"
	"runtime/debug"
	"sort"
	"strconv"
	"strings"
	"syscall"
	"time"

	"grol.io/grol/ast"
	"grol.io/grol/object"
	"verif/internal/core"
	"verif/internal/gen"
)

// C07 — no program can crash the evaluator.

// the value universe: every object type reachable from source, bound to variables by a prelude
var c07Universe = []struct{ name, src string }{
	{"vi0", "0"}, {"vi1", "1"}, {"vim1", "-1"}, {"vi63", "63"}, {"vi64", "64"}, {"vim64", "-64"}, {"vimin", "-9223372036854775807-1"}, {"vimax", "9223372036854775807"},
	{"vibig", "4611686018427387904"}, {"vi3", "3"},
	{"vf", "1.5"}, {"vfnan", "NaN"}, {"vfinf", "Inf"}, {"vfminf", "-Inf"}, {"vfm0", "-0.0"}, {"vfbig", "1e300"},
	{"vs", `""`}, {"vsa", `"a"`}, {"vsab", `"ab"`}, {"vsu", `"é"`}, {"vs0", `"\x00\xff"`}, {"vsfmt", `"%d %s %v %5.2f %q %x %c %t %T %%"`}, {"vsk", `"key"`}, {"vsnum", `"12"`}, {"vscode", `"1+"`},
	{"vt", "true"}, {"vff", "false"}, {"vn", "nil"},
	{"vae", "[]"}, {"va1", "[1]"}, {"va2", `[1, "a"]`}, {"vabig", "[1, 2, 3, 4, 5, 6, 7, 8, 9]"}, {"vanest", "[[1], [2]]"}, {"vastr", `["a", "b"]`},
	{"vme", "{}"}, {"vm1", "{1: 2}"}, {"vms", `{"a": 1, "key": 2}`}, {"vmbig", "{1: 1, 2: 2, 3: 3, 4: 4, 5: 5}"}, {"vmnest", `{"m": {1: 2}}`},
	{"vfn", "func(x) { x }"}, {"vlam0", "() => 1"}, {"vvar", "func(a, ..) { .. }"}, {"vrec", "func(n) { self(n) }"},
	{"vext", "sin"}, {"vext2", "max"}, {"vq", "quote(1 + x)"}, {"verr", `catch(error("e"))`},
}

func c07Prelude() string {
	var sb strings.Builder
	sb.WriteString("func vnamed(a, b) { a }\n")
	for _, u := range c07Universe {
		sb.WriteString(u.name + " = " + u.src + "\n")
	}
	// a small map that used to hold a large array (stale internal slot), a shrunk large map, a slice of a large array
	sb.WriteString("vmdel = {\"a\": 1, \"b\": [1, 2, 3, 4, 5, 6, 7, 8, 9]}; del(vmdel.b)\n")
	sb.WriteString("vmshrunk = {1: 1, 2: 2, 3: 3, 4: 4, 5: 5}; del(vmshrunk[5])\n")
	sb.WriteString("vaslice = [1, 2, 3, 4, 5, 6, 7, 8, 9][0:3]\n")
	// large representations emptied or reduced to one element, a literal with repeated keys
	sb.WriteString("vmempty = {1: 1, 2: 2, 3: 3, 4: 4, 5: 5}; del(vmempty[1]); del(vmempty[2]); del(vmempty[3]); del(vmempty[4]); del(vmempty[5])\n")
	sb.WriteString("vmone = {1: 1, 2: 2, 3: 3, 4: 4, 5: 5, 6: 6}; del(vmone[1]); del(vmone[2]); del(vmone[3]); del(vmone[4]); del(vmone[5])\n")
	sb.WriteString("vmdup = {1: 1, 1: 2, 1: 3, 1: 4, 1: 5, 1: 6}\n")
	sb.WriteString("vaempty = [1, 2, 3, 4, 5, 6, 7, 8, 9][0:0]\n")
	// small maps holding a large array / a function in their last entry (a prefix slice drops that entry)
	sb.WriteString("vmsb = {\"a\": 1, \"b\": [1, 2, 3, 4, 5, 6, 7, 8, 9]}\n")
	sb.WriteString("vmsf = {1: 1, 2: x => x}\n")
	return sb.String()
}

func c07Names() []string {
	names := []string{"vnamed", "vmdel", "vmshrunk", "vaslice", "vmempty", "vmone", "vmdup", "vaempty", "vmsb", "vmsf"}
	for _, u := range c07Universe {
		names = append(names, u.name)
	}
	return names
}

var c07Parsed = map[string]*ast.Statements{}

var c07Guards = []string{"max depth", "would exceed memory"}

// c07One evaluates prelude+program on a fresh state under recover; a panic that is not one of the two documented
// guards is a violation whose class is the panic site.
func c07One(kind, prelude, src string) *core.Viol {
	cs := core.Case{Kind: kind, Data: src}
	if kind == "wild" {
		cs.Cfg = prelude
	}
	for _, cfg := range []sessCfg{{maxDepth: 200}, {noReg: true, cacheOff: true, maxDepth: 200}} {
		x := newSess(cfg)
		if prelude != "" {
			// the prelude is parsed once per process; each case evaluates it on its fresh state
			prog, ok := c07Parsed[prelude]
			if !ok {
				pr := parseText([]byte(prelude), false)
				if !pr.clean() {
					return &core.Viol{Class: "harness: prelude does not parse", Detail: strings.Join(pr.errs, ";"), Case: cs}
				}
				prog = pr.prog
				c07Parsed[prelude] = prog
			}
			if o := x.s.Eval(prog); o.Type() == object.ERROR {
				return &core.Viol{Class: "harness: prelude failed", Detail: o.Inspect(), Case: cs}
			}
		}
		r := implEval(x, src, 3000)
		if r.panicked != "" {
			guard := false
			for _, g := range c07Guards {
				if strings.Contains(r.errText, g) {
					guard = true
				}
			}
			if !guard {
				return &core.Viol{Class: r.panicked, Detail: fmt.Sprintf("%q panicked: %s (noReg=%v)", src, r.errText, cfg.noReg), Case: cs, FindText: src}
			}
		}
	}
	return nil
}

var c07InfixOps = []string{"+", "-", "*", "/", "%", "==", "!=", "<", "<=", ">", ">=", "<<", ">>", "&", "|", "^", "&&", "||", ":", "=", ":="}

func c07ExtensionNames() []string {
	var names []string
	for n := range object.ExtraFunctions() {
		if strings.HasPrefix(n, "verif_") || n == "sleep" || n == "read" {
			continue
		}
		names = append(names, n)
	}
	sort.Strings(names)
	return names
}

func runC07(c *core.Ctx) {
	// contain memory: the documented guard works off the Go memory limit
	debug.SetMemoryLimit(1 << 30)
	var rl syscall.Rlimit
	rl.Cur, rl.Max = 24<<30, 24<<30
	_ = syscall.Setrlimit(syscall.RLIMIT_AS, &rl)
	if dn, err := os.Open(os.DevNull); err == nil {
		os.Stdin = dn
	}
	// scratch cwd for save()/image.save (restricted IO: plain names only)
	if dir, err := os.MkdirTemp("", "c07-cwd-"); err == nil {
		_ = os.Chdir(dir)
		defer os.RemoveAll(dir)
	}
	prelude := c07Prelude()
	names := c07Names()
	sub6 := []string{"vi1", "vsa", "va1", "vm1", "vn", "vfn"}
	var bounds []string
	do := func(fam, pre, src string) bool {
		if c.P.Evals&0xff == 0 && c.Expired() {
			return false
		}
		if !c.MineNoDedup(fam, pre+"\x00"+src) {
			return true
		}
		k := fam
		if fam == "wild" {
			k = "wild"
		}
		c.Current(core.Case{Kind: k, Data: src, Cfg: map[bool]string{true: pre, false: ""}[fam == "wild"]})
		v := c.Run(func() *core.Viol { return c07One(k, pre, src) })
		out := "no-crash"
		if v != nil {
			out = v.Class
		}
		c.CountNT(fam+": "+trunc(src, 120), out, true)
		return true
	}
	ok := true
	// 1. operators x kinds
	for _, op := range c07InfixOps {
		for _, a := range names {
			for _, b := range names {
				if ok = do("infix", prelude, a+" "+op+" "+b); !ok {
					break
				}
			}
		}
	}
	for _, a := range names {
		for _, f := range []string{"-%s", "!%s", "+%s", "~%s", "^%s", "++%s", "--%s", "%s++", "%s--", "if %s { 1 }", "for %s { break }", "for v = %s { break }", "for v = %s { v }", "for %s = 3 { }",
			"del(%s)", "del(%s.k)", "del([%s])", "del(%s())", "%s.k", "%s.k = 1", "%s()", "%s(1)", "%s(1, 2)", "[%s, %s]", "{%s: 1}", "{1: %s}", "{%s: %s}", "return %s", "%s => 1", "quote(%s)", "unquote(%s)",
			"func(%s) { 1 }(1)", "func() { %s }()", "x = %s; x[0] = x", "-%s + !%s", "%s[%s]", "%s[%s:%s]", "println(%s)", "print(%s, %s)", "error(%s)", "catch(%s)", "len(%s)", "first(%s)", "rest(%s)", "first(rest(%s))",
			"%s = %s + %s", "for e = %s { for f = e { f } }", "%s[1:]", "%s[:1]", "%s[-1]", "vfn(%s[0:1])", "vfn(%s[1:])", "vnamed(%s[0:1], %s[0:2])", "vfn(rest(%s))", "x = %s[0:1]; vfn(x); vfn(x)", "%s[0][0]", "%s.a.b", "[%s][0]", "%s(%s)", "%s((%s))", "(x => x)(%s)"} {
			if ok = do("unary", prelude, strings.ReplaceAll(f, "%s", a)); !ok {
				break
			}
		}
	}
	bounds = append(bounds, fmt.Sprintf("%d infix operators x all ordered pairs of %d values of every object type; 56 unary forms x every value", len(c07InfixOps), len(names)))
	// 1b. the same unary forms and the operator table over a value subset at debug log level: the evaluator formats
	// trace messages about the nodes and values at hand (log level is configuration, the property holds under all of it)
	if ok {
		prev := log.GetLogLevel()
		log.SetLogLevelQuiet(log.Debug)
		unary := []string{"-%s", "!%s", "++%s", "%s--", "if %s { 1 }", "for v = %s { v }", "for %s = 3 { }", "del(%s)", "del(%s.k)", "%s.k = 1", "%s(1, 2)", "{%s: %s}", "return %s", "%s => 1", "quote(%s)", "unquote(%s)",
			"func(%s) { 1 }(1)", "x = %s; x[0] = x", "%s[%s]", "%s[%s:%s]", "%s[:1]", "%s[1:]", "print(%s, %s)", "error(%s)", "catch(%s)", "len(%s)", "first(rest(%s))", "%s = %s + %s", "m = macro(x) { quote(unquote(x)) }; m(%s)", "%s(%s)"}
		for _, a := range names {
			for _, f := range unary {
				if ok = do("dbg-unary", prelude, strings.ReplaceAll(f, "%s", a)); !ok {
					break
				}
			}
		}
		for _, op := range c07InfixOps {
			for _, a := range sub6 {
				for _, b := range sub6 {
					if ok = do("dbg-infix", prelude, a+" "+op+" "+b); !ok {
						break
					}
				}
			}
		}
		log.SetLogLevelQuiet(prev)
		bounds = append(bounds, fmt.Sprintf("at debug log level: %d unary forms x every value, every infix operator x all pairs of 6 values", len(unary)))
	}
	// 1c. programs evaluated by the interpreter states made on the side (unjson, eval): calls, loops, definitions, macros, errors
	if ok {
		inner := []string{"(() => 1)()", "(x => x + 1)(2)", "func f() { 1 }; f()", "f = func(n) { if n == 0 { 0 } else { self(n - 1) } }; f(5)", "for i = 3 { i }", "m = macro(x) { quote(unquote(x)) }; m(1)",
			"[1, 2][5]", "1 / 0", "x = 1; del(x); x", "info", "self", "println(1)", "(x => x)((y => y)(3))", "{\"a\": [1, {\"b\": () => 2}]}.a[1].b()", "catch(1 / 0)", "error(\"e\")", "len(", "quote(1 + 2)", "PI", "abs(-1)", "eval(\"1 + 1\")", "unjson(\"[1]\")"}
		for _, in := range inner {
			for _, f := range []string{"unjson(%s)", "eval(%s)", "unjson(%s); unjson(%s)", "f9 = unjson(%s); catch(f9()); catch(f9(1))", "[unjson(%s)] == [eval(%s)]", "func() { unjson(%s) }()", "for 2 { eval(%s) }"} {
				if ok = do("substate", prelude, strings.ReplaceAll(f, "%s", strconv.Quote(in))); !ok {
					break
				}
			}
		}
		// macro bodies are code too: evaluated at expansion time by a state made on the side
		bodies := []string{"println(1)", "print(\"a\"); quote(unquote(x))", "1 + 1", "f = func(n) { if n == 0 { 0 } else { f(n - 1) } }; f(3); quote(unquote(x))", "max(1, 2); quote(unquote(x) + 1)", "log(\"l\"); quote(unquote(x))",
			"[1, 2][5]", "1 / 0", "error(\"e\")", "for i = 3 { i }; quote(unquote(x))", "y = quote(unquote(x)); y", "if true { quote(unquote(x)) } else { 2 }", "eval(\"1\"); quote(unquote(x))", "unjson(\"[1]\"); quote(1)", "info; quote(unquote(x))", "self",
			"catch(1 / 0); quote(unquote(x))", "sprintf(\"%v\", 1); quote(unquote(x))", "vfn(1); quote(unquote(x))", "va2[0]; quote(unquote(x))", "return quote(unquote(x))", "(() => quote(1))()", "mm = macro(z) { quote(unquote(z)) }; quote(unquote(x))"}
		for _, b := range bodies {
			for _, use := range []string{"mb(1)", "mb(1); mb(2)", "println(catch(mb(va2)))", "func() { mb(1) }()", "for 2 { mb(1) }", "eval(\"mb(1)\")"} {
				if ok = do("macrobody", prelude, "mb = macro(x) { "+b+" }; "+use); !ok {
					break
				}
			}
		}
		bounds = append(bounds, fmt.Sprintf("%d programs x 7 ways of evaluating them in an interpreter state made on the side (unjson, eval); %d macro bodies (printing, calling functions and extensions, failing, control flow) x 6 uses", len(inner), len(bodies)))
	}
	// 2. binary and ternary forms x every value in every position
	if ok {
		for _, f := range []string{"%a[%b]", "%a[%b] = 1", "%a[%b:]", "%a.k = %b", "del(%a[%b])", "%a(%b)", "%a = %b", "%a := %b", "for %a = %b { }", "for v = %a:%b { break }", "x = %a; x[%b] = x",
			"[%a] + %b", "%a + [%b]", "{%a: %b}", "%a[0] = %b", "%a[-1] = %b", "f = func(p) { p[%a] = %b; p }; f(%a)", "%a && %b || %a", "if %a == %b { %a } else { %b }"} {
			for _, a := range names {
				for _, b := range names {
					if ok = do("binary", prelude, strings.ReplaceAll(strings.ReplaceAll(f, "%a", a), "%b", b)); !ok {
						break
					}
				}
			}
		}
		ternNames := names
		if c.Quick() {
			ternNames = []string{"vi0", "vi1", "vim1", "vimin", "vimax", "vf", "vfnan", "vsa", "vs", "vt", "vn", "vae", "va2", "vabig", "vme", "vm1", "vmbig", "vfn", "vext", "vq"}
		}
		for _, f := range []string{"%a[%b:%c]", "%a[%b] = %c", "%a(%b, %c)", "x = %a; x[%b:%c]"} {
			for _, a := range ternNames {
				for _, b := range ternNames {
					for _, d := range ternNames {
						if ok = do("ternary", prelude, strings.ReplaceAll(strings.ReplaceAll(strings.ReplaceAll(f, "%a", a), "%b", b), "%c", d)); !ok {
							break
						}
					}
				}
			}
		}
		bounds = append(bounds, fmt.Sprintf("19 binary forms x all ordered pairs; 4 ternary forms x all triples of %d values", len(ternNames)))
	}
	// 3. every builtin and extension x every value in every argument position
	if ok {
		fns := append([]string{"len", "first", "rest", "print", "println", "log", "error", "catch"}, c07ExtensionNames()...)
		for _, fn := range fns {
			do("ext", prelude, fn+"()")
			for _, a := range names {
				if ok = do("ext", prelude, fn+"("+a+")"); !ok {
					break
				}
				for _, b := range names {
					do("ext", prelude, fn+"("+a+", "+b+")")
					if c.Quick() {
						continue
					}
					for _, d := range sub6 {
						do("ext", prelude, fn+"("+a+", "+b+", "+d+")")
					}
				}
				if c.Quick() {
					for _, b := range sub6 {
						for _, d := range sub6 {
							do("ext", prelude, fn+"("+a+", "+b+", "+d+")")
						}
					}
				}
			}
		}
		for _, a := range []string{"0", "-1", "NaN", "1e-9", "vs", "vn"} {
			do("ext", prelude, "sleep("+a+")")
		}
		bounds = append(bounds, fmt.Sprintf("%d builtins/extensions (restricted IO configuration) x every value in argument positions 1 and 2, third position from a 6-value subset", len(fns)))
	}
	// 2b. user functions called (twice: cache miss then hit) with every value alone and inside small containers, as
	//     element, map value and map key (the memoization key is built from the arguments)
	if ok {
		wraps := []string{"%s", "[%s]", "{1: %s}", "{%s: 1}", "[{%s: 1}]", "{%s: {%s: 1}}", "[[%s], 2]", "{\"k\": [%s, {%s: %s}]}"}
		for _, a := range names {
			for _, w := range wraps {
				arg := strings.ReplaceAll(w, "%s", a)
				do("fnargs", prelude, "vfn("+arg+"); vfn("+arg+")")
				do("fnargs", prelude, "vnamed("+arg+", "+a+"); vnamed("+arg+", "+a+")")
				do("fnargs", prelude, "vvar(1, "+arg+"); vvar(1, "+arg+")")
			}
		}
		bounds = append(bounds, fmt.Sprintf("user functions called twice with every value in %d container wrappings (element, map value, map key, nested)", len(wraps)))
	}
	// 2c. control statements inside operands, elements, arguments, keys, conditions; values consumed by every kind of user
	if ok {
		ctrl := []string{"if true { return 1 }", "if true { break }", "if true { continue }", "for 1 { return 2 }", "for 1 { break }", "return", "return [1]", "if false { 1 } else { return \"s\" }", "for e = [1, 2] { if e == 2 { return e } }"}
		ctxs := []string{"[%s]", "[1, %s, 3]", "{%s: 1}", "{1: %s}", "vfn(%s)", "vnamed(1, %s)", "len(%s)", "println(%s)", "%s + 1", "1 + %s", "-%s", "!%s", "va2[%s]", "%s[0]", "(%s).k", "va2[%s:]", "va2[0:%s]",
			"if %s { 1 }", "for %s { break }", "for x = %s { 1 }", "x = %s", "vmbig[%s] = 1", "del(vmbig[%s])", "[%s] == [%s]", "[%s] < [%s]", "{1: [%s]} == {1: [%s]}", "sort([[%s], [%s]])", "max([%s], [%s])", "catch(%s)", "catch(%s) == catch(%s)", "catch(%s).value", "first(%s)", "rest(%s)", "log(%s)", "print(%s)", "(x = %s)", "json(%s)", "unjson(%s)", "eval(%s)", "sprintf(\"%v\", %s)", "keys(%s)", "type(%s)", "int(%s)", "error(%s)", "quote(%s)", "str(%s)", "[[%s]] + [%s]", "{[%s]: 1}[[%s]]"}
		n := 0
		for _, cx := range ctxs {
			for _, a := range ctrl {
				src := strings.ReplaceAll(cx, "%s", a)
				n++
				do("control", prelude, src)
				do("control", prelude, "func() { "+src+" }()")
				do("control", prelude, "for 2 { "+src+" }")
				do("control", prelude, "func() { for 2 { x9 = "+src+" } }()")
				// whatever the construct evaluated to, consumed as a value by every kind of user
				do("control", prelude, "y9 = ["+src+"]; z9 = ["+src+"]; println(y9 == z9, y9 < z9, str(y9), json(y9), {y9: 1}, sort([y9, z9]), y9 + z9, len(y9))")
				do("control", prelude, "func() { y9 = {1: "+src+"}; z9 = {1: "+src+"}; println(y9 == z9, y9 < z9, y9 + z9, keys(y9), json(z9)) }()")
			}
		}
		// references that outlive the variable they point to
		for _, use := range []string{"g9", "g9 + 1", "g9[0]", "g9[0] = 2", "g9.k = 1", "len(g9)", "println(g9)", "for e = g9 { e }", "g9 = 3", "del(g9)", "[g9]", "{g9: 1}", "vfn(g9)", "g9 == g9", "g9++"} {
			for _, val := range []string{"1", "[1, 2]", "{\"k\": 1}", "vabig", "vfn", "\"s\""} {
				do("dangling", prelude, "g9 = "+val+"; killer = func() { del(g9) }; user = func() { y = g9; killer(); "+use+" }; user()")
				do("dangling", prelude, "g9 = "+val+"; user = func() { inner = func() { del(g9) }; y = g9; inner(); "+use+"; g9 }; user(); user()")
			}
		}
		bounds = append(bounds, fmt.Sprintf("%d control-statement-in-operand programs x 4 scopes; references read / written after the variable was deleted (15 uses x 6 values x 2 shapes)", n))
	}
	// 2d. the `info` identifier (stack, globals) read at every call depth, from closures created deeper or shallower than
	//     where they are called, in loops, in recursion, through eval
	if ok {
		reads := []string{"info", "info.stack", "info.globals", "len(info.stack)", "println(info)", "info.all_ids", "keys(info)", "info.stack[0]", "str(info.stack)"}
		n := 0
		for _, rd := range reads {
			for _, shape := range []string{"%s", "show = func() { %s }; show()", "show = func() { %s }; caller = func() { show() }; caller()", "show = func() { %s }; c1 = func() { c2 = func() { show() }; c2() }; c1()",
				"mk = func() { func() { func() { %s } } }; inner = mk()(); inner()", "mk = func() { func() { %s } }; g = mk(); h = func() { g() }; h()", "func r(n) { if n == 0 { %s } else { r(n - 1) } }; r(5)",
				"for i = 2 { func() { %s }() }", "func named() { for e = [1] { x = func() { %s }; x() } }; named()", "eval(\"func() { %s }()\")", "f = func(a, ..) { %s }; f(1, 2, 3)", "m9 = {\"f\": func() { %s }}; m9.f()"} {
				n++
				do("info", prelude, strings.ReplaceAll(shape, "%s", rd))
			}
		}
		bounds = append(bounds, fmt.Sprintf("%d programs reading info / info.stack / info.globals at every combination of call depth and lexical depth", n))
	}
	// 3a. the stateful image API: two images of every size combination x every image operation with boundary arguments
	if ok {
		dims := []int{0, 1, 2, 5}
		colors := []string{"[255, 0, 0]", "[1, 2, 3, 4]", "[]", "[1]", "[256, -1, 0]", "[\"a\", 1, 2]", "[1.5, 2, 3]", "[NaN, Inf, -Inf]", "[1, 2, 3, 4, 5]"}
		floats := []string{"0.0", "-1.0", "1.5", "1e300", "-1e300", "NaN", "Inf"}
		n := 0
		for _, w1 := range dims {
			for _, h1 := range dims {
				for _, w2 := range dims {
					for _, h2 := range dims {
						pre := fmt.Sprintf("image.new(\"ia\", %d, %d); image.new(\"ib\", %d, %d)\n", w1, h1, w2, h2)
						// both images with their corner pixels set (merging reads and writes real colour data)
						lit := fmt.Sprintf("image.set(\"ia\", %d, %d, [255, 254, 253, 252]); image.set(\"ia\", 0, 0, [1, 2, 3]); image.set(\"ib\", %d, %d, [9, 8, 7, 6]); image.set(\"ib\", 0, 0, [250, 251, 252]); ", w1-1, h1-1, w2-1, h2-1)
						for _, op := range []string{`image.add("ia", "ib"); image.png("ia")`, `image.add("ib", "ia"); image.png("ib")`, `image.add("ia", "ia")`} {
							n++
							do("image", "", pre+lit+op)
						}
						for _, op := range []string{`image.add("ia", "ib")`, `image.add("ib", "ia")`, `image.add("ia", "ia")`, `image.add("ia", "nope")`, `image.add("nope", "ia")`,
							`image.add("ia", "ib"); image.png("ia")`, `image.draw("ia", [1, 2, 3]); image.add("ib", "ia"); image.png("ib")`} {
							n++
							if ok = do("image", "", pre+op); !ok {
								break
							}
						}
					}
				}
				// single image operations at and beyond its borders
				pre := fmt.Sprintf("image.new(\"ia\", %d, %d)\n", w1, h1)
				for _, x := range []int{-1, 0, w1 - 1, w1, 1 << 40} {
					for _, y := range []int{-1, 0, h1 - 1, h1} {
						for _, col := range colors {
							for _, fn := range []string{"image.set", "image.set_hsl", "image.set_ycbcr"} {
								n++
								do("image", "", pre+fmt.Sprintf("%s(\"ia\", %d, %d, %s); image.png(\"ia\")", fn, x, y, col))
							}
						}
					}
				}
				for _, a := range floats {
					for _, b := range floats {
						n++
						do("image", "", pre+fmt.Sprintf("image.move_to(\"ia\", %s, %s); image.line_to(\"ia\", %s, %s); image.line_to(\"ia\", 1.0, 1.0); image.close_path(\"ia\"); image.draw(\"ia\", [1, 2, 3]); image.png(\"ia\")", a, b, b, a))
						do("image", "", pre+fmt.Sprintf("image.move_to(\"ia\", 0.0, 0.0); image.quad_to(\"ia\", %s, %s, 1.0, 1.0); image.cube_to(\"ia\", %s, 0.5, 0.5, %s, 1.0, 0.0); image.draw_hsl(\"ia\", [0.5, 0.5, 0.5]); image.draw_ycbcr(\"ia\", [1, 2, 3])", a, b, a, b))
					}
				}
				for _, col := range colors {
					do("image", "", pre+"image.move_to(\"ia\", 0.0, 0.0); image.line_to(\"ia\", 3.0, 0.0); image.line_to(\"ia\", 0.0, 3.0); image.draw(\"ia\", "+col+"); image.draw_hsl(\"ia\", "+col+"); image.draw_ycbcr(\"ia\", "+col+")")
				}
				do("image", "", pre+"image.draw(\"ia\", [1, 2, 3]); image.close_path(\"ia\"); image.line_to(\"ia\", 1.0, 1.0); image.save(\"ia\"); image.png(\"ia\")")
			}
		}
		for _, sz := range [][2]string{{"-1", "5"}, {"5", "-1"}, {"0", "0"}, {"100000", "100000"}, {"3000000000", "3000000000"}, {"9223372036854775807", "2"}, {"65536", "65536"}, {"46341", "46341"}, {"1", "1073741824"}} {
			do("image", "", fmt.Sprintf("image.new(\"big\", %s, %s); image.set(\"big\", 0, 0, [1, 2, 3]); len(image.png(\"big\"))", sz[0], sz[1]))
		}
		bounds = append(bounds, fmt.Sprintf("image API: two images of every size in {0,1,2,5}^2 each x 7 merge programs; every set/set_hsl/set_ycbcr at and beyond the borders x 9 colour arrays; paths with every pair of 7 float extremes; degenerate / huge image sizes (%d programs)", n))
	}
	// 3b. nested counted loops with every way of leaving them (register allocation / release paths)
	if ok {
		ok = c05LoopPrograms(false, func(fam, src string) bool { return do("loops", "", src) })
		bounds = append(bounds, "nested counted loops to depth 3 (all variable-name / form / exit-kind combinations of C05's loop family) and depth 4..10")
	}
	// 4. wild syntax: every G-syn tree evaluated with a, b bound to values of different kinds
	if ok {
		full := gen.FullCfg()
		maxSize := 3
		pres := []string{"a = 3; b = \"s\"", "a = [1, 2]; b = {1: 2}", "a = func(x) { x }; b = nil", "a = 1.5; b = [1,2,3,4,5,6,7,8,9]", "a = true; b = quote(z)", "a = {}; b = -1"}
		maxSize = 4
		for size := 1; size <= maxSize && ok; size++ {
			ok = full.EnumStmt(size, func(n *gen.N) bool {
				src := gen.Render([]*gen.N{n}, gen.Policy{StmtSep: "\n"})
				for pi, pre := range pres {
					if size == 4 && c.Quick() && pi > 0 {
						break // quick tier: the largest trees under the first binding only
					}
					if !do("wild", pre, src) {
						return false
					}
				}
				return true
			})
		}
		bounds = append(bounds, fmt.Sprintf("every G-syn tree of size <=%d evaluated under %d bindings of its identifiers (quick: size 4 under the first binding only)", maxSize, len(pres)))
	}
	// 5. single-byte mutations of the shipped programs that still parse, evaluated under a step budget (thorough)
	if ok && !c.Quick() {
		files := exampleFiles()
		n := 0
		for _, fn := range files {
			src, err := os.ReadFile(fn)
			if err != nil || len(src) > 1500 {
				continue
			}
			if strings.Contains(string(src), "image.") || strings.Contains(string(src), "sleep") || strings.Contains(string(src), "read(") {
				continue
			}
			n++
			for pos := 0; pos < len(src) && ok; pos++ {
				m := append(append([]byte{}, src[:pos]...), src[pos+1:]...)
				ok = do("mut", "", string(m))
				for _, b := range c08MutBytes {
					m = append([]byte{}, src...)
					m[pos] = b
					do("mut", "", string(m))
				}
			}
		}
		bounds = append(bounds, fmt.Sprintf("every single-byte deletion/substitution of %d shipped programs evaluated under a 3000-step budget", n))
	}
	if ok && !c.Expired() {
		// the register rewrite of loop and function bodies traces what it did (verbose / debug log level): C05's function
		// programs of at most one parameter and its single loops
		prev := log.GetLogLevel()
		log.SetLogLevelQuiet(log.Debug)
		nb := 0
		ok = c05FnPrograms(false, func(fam, src string) bool {
			if i := strings.Index(src, "func f("); i < 0 || strings.Contains(src[i:i+strings.IndexByte(src[i:], ')')], ",") { // functions of at most one parameter
				return true
			}
			nb++
			return do("dbg-fn", "", src)
		})
		if ok {
			ok = c05LoopPrograms(false, func(fam, src string) bool {
				if strings.Count(src, "for ") > 2 { // (one of them is the trailing probe loop)
					return true
				}
				nb++
				return do("dbg-loop", "", src)
			})
		}
		log.SetLogLevelQuiet(prev)
		bounds = append(bounds, fmt.Sprintf("at debug log level: %d function and single-loop programs of C05's families", nb))
	}
	c.P.Bound = strings.Join(bounds, "; ") + "; default and plain configuration"
}

func init() {
	core.Register(&core.Check{
		ID:          "C07",
		Level:       "exploration",
		Rule:        "programs enumerated exhaustively and evaluated through parse, macro definition/expansion and State.Eval under the harness's own recover, with a 3000-poll counting context, GOMEMLIMIT 1GiB, restricted IO, stdin=/dev/null: every infix operator x every ordered pair from a 48-value universe covering every object type (boundary ints/floats, strings, bool, nil, small/large/nested arrays and maps, named function, lambdas, variadic, extension functions, quote object, caught error), 56 unary and 19 binary forms x every value, index/slice/index-assignment/call x all triples, every builtin and extension x every value in every argument position, every small G-syn tree under several identifier bindings, byte mutations of shipped programs (thorough). Oracle: a panic must be one of the two documented guards (max depth, memory budget); anything else is a violation identified by its panic call site; a dying worker process is a violation attributed to its input. Non-trivial = every case. Also: a debug-log-level pass (unary forms, operator table, C05's one-parameter functions and single loops: the register-rewrite traces); programs and macro bodies evaluated by interpreter states made on the side (unjson, eval, macro expansion); control statements inside builtin arguments with the result compared, sorted, used as a key. Round 7: prefix slices of small maps whose dropped entry holds a large array or a function, passed to user functions.",
		Assume:      []string{"sleep() only called with tiny arguments; exec/run absent (restricted IO)"},
		QuickCap:    240 * time.Second,
		ThoroughCap: 20 * time.Minute,
		HangLimit:   240 * time.Second,
		TrackDeath:  true,
		WorkerEnv:   []string{"GOMEMLIMIT=1GiB"},
		Run:         runC07,
		Replay: func(c *core.Ctx, cs core.Case) *core.Viol {
			debug.SetMemoryLimit(1 << 30)
			pre := c07Prelude()
			if cs.Kind == "wild" {
				pre = cs.Cfg
			}
			if cs.Kind == "mut" || cs.Kind == "loops" {
				pre = ""
			}
			return c07One(cs.Kind, pre, cs.Data)
		},
	})
}
