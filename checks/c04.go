package checks

import (
	"fmt"
	"fortio.org/log"
	"strings"
	"time"

	"verif/internal/core"
)

// C04 — memoization is unobservable: every REPL history over an alphabet of inputs designed to make every
// element of the cache key collide is run on one persistent state with the cache on and with the cache off
// (hook H1), under registers on and off; per-input records must be identical.

var c04Inputs = []string{
	// callee definition / redefinition
	"func g(x) { x + 1 }",
	"func g(x) { x + 2 }",
	"func f(x) { g(x) }",
	"println(f(1))",
	"println(f(2))",
	"println(f(1.0))",
	// -0.0 vs 0.0 as cache key
	"func id(x) { x }",
	"println(1 / id(0.0))",
	"println(1 / id(-0.0))",
	// closures with identical inner text: lower-case, upper-case and function-valued captures
	"func mk(n) { func(x) { x + n } }; a = mk(1); b = mk(2)",
	"println(a(5)); println(b(5))",
	"func mkU(N) { func(x) { x + N } }; aU = mkU(1); bU = mkU(2)",
	"println(aU(5)); println(bU(5))",
	"func mkF(h) { func(x) { h(x) } }; c1 = mkF(func(x) { x + 1 }); c2 = mkF(func(x) { x * 2 })",
	"println(c1(5)); println(c2(5))",
	// a function that prints then returns (order and multiplicity of output)
	"func pr(x) { println(\"in pr\", x); x }",
	"pr(1); pr(1); println(pr(2) + pr(1))",
	"func outer(x) { pr(x) + 1 }; println(outer(1), outer(1))",
	// failing on some arguments
	"func fl(x) { if x == 1 { error(\"bad\") }; x }",
	"println(catch(fl(1))); println(fl(2)); println(catch(fl(1)))",
	// reading / writing a global
	"gl = 1",
	"gl = 2",
	"func rd() { gl }",
	"println(rd())",
	"func wr(v) { gl = v; v }",
	"println(wr(5)); println(gl)",
	// non-deterministic extension wrapped in a function
	"func cnt() { verif_counter() }",
	"println(cnt(), cnt())",
	// hashable / unhashable argument sizes and 5-argument calls
	"func sm(x) { println(\"sm\"); len(x) }",
	"println(sm([1,2,3])); println(sm([1,2,3])); println(sm([1,2,3,4,5,6,7,8,9])); println(sm([1,2,3,4,5,6,7,8,9]))",
	"println(sm({1:1})); println(sm({1:1})); println(sm({1:1,2:2,3:3,4:4,5:5})); println(sm({1:1,2:2,3:3,4:4,5:5}))",
	"func s5(a, b, c, d, e) { println(\"s5\"); a + b + c + d + e }; println(s5(1, 2, 3, 4, 5), s5(1, 2, 3, 4, 5))",
	// state captured by a closure that it updates
	"func acc() { st = 0; func() { st = st + 1; st } }; k = acc()",
	"println(k(), k())",
	// recursion (heavy cache use) and self
	"func fib(n) { if n < 2 { n } else { fib(n - 1) + fib(n - 2) } }; println(fib(15))",
	// different functions whose printed text may coincide
	"p1 = func(a, b, c) { a - (b - c) }; p2 = func(a, b, c) { a - b - c }",
	"println(p1(9, 4, 1)); println(p2(9, 4, 1))",
	// 1 vs 1.0 vs \"1\" vs true as arguments of the same function
	"println(id(1)); println(id(1.0)); println(id(\"1\")); println(id(true)); println(id(nil))",
	// a named function and a lambda with the same text
	"func n1(x) { gl + x }; n2 = func(x) { gl + x }; println(n1(1), n2(1))",
	"del(gl)",
	// combined inputs so that depth 3 reaches redefinition / rebinding after a remembered call
	"func g(x) { x + 1 }; func f(x) { g(x) }; println(f(1))",
	"g = func(x) { x * 10 }",
	"C = 1; func rc() { C }; println(rc())",
	"del(C); C = 2",
	"println(rc())",
	"func hh(x) { x + 1 }; func viaArg(x) { hh(x) }; println(viaArg(1)); hh = 5",
	"println(catch(viaArg(1)))",
	"m1 = {1: 1}; func rm(k) { m1[k] }; println(rm(1)); m1[1] = 2; println(rm(1))",
	"func two(x) { println(\"two\", x); x }; println(two(1) + two(1)); println(two(1.0))",
	"func va(a, ..) { println(\"va\"); len(..) }; println(va(1, 2), va(1, 2), va(1), va(1, [2]))",
	// a mutable global read two calls deep; a function that rebinds a global function; -0.0 nested in containers
	"func viaRd() { rd() }; println(catch(viaRd()))",
	"gl = 1; func rd() { gl }; func viaRd() { rd() }; println(viaRd())",
	"println(catch(viaRd()))",
	"func viaRd2() { viaRd() + 0 }; println(catch(viaRd2()))",
	"tg = func() { 1 }; toggle = func() { if tg() == 1 { tg = func() { 2 } } else { tg = func() { 1 } }; tg() }",
	"println(toggle()); println(toggle()); println(toggle())",
	"println(1 / id([0.0])[0]); println(1 / id([-0.0])[0]); println(1 / id({1: 0.0})[1]); println(1 / id({1: -0.0})[1])",
	"func deep(x) { pr(x) + outer(x) }; println(deep(1)); println(deep(1))",
	"func setg(v) { gl2 = v }; gl2 = 0; setg(7); println(gl2); gl2 = 1; setg(7); println(gl2)",
	"func s5v(a, b, c, d, e) { e }; println(s5v(1, 2, 3, 4, 5), s5v(1, 2, 3, 4, 6))",
	// a global function redefined from inside a function that already holds a reference to it
	"func g(x) { x + 1 }; func f(x) { g(x) }; println(f(1)); func sw() { g(0); g = func(x) { x * 100 } }",
	"sw(); println(f(1))",
	"func two2() { verif_counter() }; func one1() { two2() }; func zero0() { one1() }; println(zero0(), zero0(), zero0())",
	// a self-recursive function that reads a mutable global before recursing
	"gl = 1; func rg(n) { if n == 0 { 0 } else { gl + rg(n - 1) } }; println(rg(3))", "println(catch(rg(2)))", "println(catch(rg(3)), catch(rg(1)))",
	"gl = 1; rl = func(n) { if n <= 0 { return 0 }; gl + rl(n - 1) }; println(rl(3)); gl = 5; println(rl(2), rl(1), rl(3))",
	// a stateful extension that fails (caught inside a user function), then succeeds after the state changed
	"paint = func() { catch(image.set(\"IMG4\", 0, 0, [1, 2, 3])).err }; println(paint())", "image.new(\"IMG4\", 2, 2); println(paint())", "println(catch(paint()))",
	// a printing variadic function called with an outer one-element array from inside a function, then with the flat arguments
	"one = [5]; func tv(a, ..) { println(\"tv\", a, ..); a }; func callit() { tv(1, one) }; println(callit()); println(tv(1, 5)); println(tv(1, 5))",
	"func tv2(..) { println(\"tv2\", ..); len(..) }; two = [[7]]; func c2() { tv2(two) }; println(c2(), tv2([7]), tv2([7]), tv2(7), tv2(7))",
	// more than 64 KiB printed by one cached call
	"func big3(ch) { println(ch * 70000); 1 }; println(big3(\"a\") + big3(\"a\") + big3(\"b\"))",
	// functions with the same text and different names whose result depends on which one it is
	"func sa() { self }; func sb() { self }; println(sa()); println(sb()); println(sa())",
	"func na(x) { println(\"in\", self); x }; func nb(x) { println(\"in\", self); x }; println(na(1), nb(1), na(1))",
	// large printed output of cached calls interleaved (the replayed bytes must be the call's own)
	"func banner(ch) { println(ch * 6000); len(ch) }; banner(\"a\"); banner(\"b\"); banner(\"a\"); banner(\"b\")",
	"func big2(ch) { print(ch * 5000); print(\"|\"); 1 }; println(big2(\"x\") + big2(\"y\") + big2(\"x\"))",
	// variadic callee: a trailing array is spread; the cache key must be the spread arguments of this very call
	"func total(a, ..) { println(\"total\", a, ..); a + len(..) }; println(total(100, [5, 6, 7])); println(total(100, 5)); println(total(100, 5, 6, 7)); println(total(100, [5]))",
	"func vsum(..) { println(\"vsum\", ..); len(..) }; println(vsum([1, 2, 3, 4, 5, 6, 7, 8, 9]), vsum(1), vsum([1]), vsum(1, 2))",
	// a name that is local to the function when first called and a global (defined afterwards) when called again
	"func wr2(v) { gn = v; v }; println(wr2(5)); gn = 1; println(wr2(5), gn)",
	"func rd3() { gm = 3; gm }; println(rd3()); gm = 1; println(rd3(), gm)",
	// a name bound nowhere when the function first runs (the error caught), bound when it runs again
	"func ou(flag) { if flag { yy = 1 }; func inn() { catch(yy).err }; inn() }; println(ou(false), ou(true), ou(false))",
	"func lk() { catch(zq).err }; println(lk())", "zq = 1; println(lk())", "del(zq); println(lk())",
	// a global constant rebound to a value that is "equal" but not the same (the rebinding is allowed): -0.0 for 0.0, [1.0] for [1]
	"ZZ = 0.0; func rz() { 1 / ZZ }; println(rz())", "ZZ = -0.0; println(rz(), 1 / ZZ)", "AA = [1]; func ra() { AA[0] / 2 }; println(ra())", "AA = [1.0]; println(ra(), AA[0] / 2)",
	// an impure callee that fails (reads mutable state / a counter), the error caught by an otherwise pure caller
	"xq = 0; func gq() { if xq == 0 { error(\"zero\") } else { xq } }; func fq() { catch(gq()).err }; println(fq())", "xq = 1; println(fq())", "xq = 0; println(fq(), fq())",
	"func gr() { if verif_counter() % 2 == 0 { error(\"even\") } else { 1 } }; func fr() { catch(gr()).err }; println(fr(), fr(), fr(), fr())",
	// a factory of closures over its own variables: every call makes a new one
	"func counter(s) { c = s; () => { c = c + 1; c } }; ct = [counter(0), counter(0)]; println([ct[0](), ct[0](), ct[1]()])", "cn = counter(0); println(cn(), cn(), counter(0)())",
	"func pairc(s) { c = s; [() => { c = c + 1; c }, 5] }; pa = pairc(0); pb = pairc(0); println([pa[0](), pa[0](), pb[0]()])",
	// (known finding C04-K1, a consequence of C02-K2: two lambdas whose printed text is the same share their memo entries)
	"fa9 = (a, b, c) => a + (b + c); fb9 = (a, b, c) => a + b + c; println(fa9(1e100, -1e100, 1.0), fb9(1e100, -1e100, 1.0))",
	// functions made by another interpreter state: same text, different globals
	"ua = unjson(\"N=1; ()=>N\"); ub = unjson(\"N=2; ()=>N\"); println(ua(), ub(), ua())",
}

type c04Cfg struct{ noReg bool }

var c04RunCounter int

func c04Run(hist []string, cacheOff, noReg bool) []stepRec {
	x := newSess(sessCfg{noReg: noReg, cacheOff: cacheOff})
	recs := make([]stepRec, len(hist))
	// the image table is one per process: every run gets its own image name (IMG4), or the runs being compared would
	// see each other's images
	c04RunCounter++
	img := fmt.Sprintf("im4r%d", c04RunCounter)
	for i, h := range hist {
		recs[i] = x.step(strings.ReplaceAll(h, "IMG4", img))
	}
	return recs
}

func c04Diff(hist []string) *core.Viol {
	text := strings.Join(hist, " ;; ")
	for _, noReg := range []bool{false, true} {
		on := c04Run(hist, false, noReg)
		off := c04Run(hist, true, noReg)
		for i := range on {
			if !sameRec(on[i], off[i]) {
				cl := "cache=" + outcomeClass(on[i])
				if outcomeClass(on[i]) == "ok" {
					cl = "cache=ok|nocache=" + outcomeClass(off[i])
					if outcomeClass(off[i]) == "ok" {
						cl = "output-differs"
					}
				}
				cl += " @ " + trunc(hist[i], 60)
				return &core.Viol{Class: cl, Detail: fmt.Sprintf("noReg=%v at input %d (%q): cache on: %s ; cache off: %s", noReg, i, hist[i], on[i], off[i]),
					Case: core.Case{Kind: "hist", Data: text}, FindText: text}
			}
		}
	}
	if len(hist) <= 2 {
		// the log level is configuration: the shorter histories once more with the cache on at debug log level
		prev := log.GetLogLevel()
		log.SetLogLevelQuiet(log.Debug)
		d := c04Run(hist, false, false)
		log.SetLogLevelQuiet(prev)
		b := c04Run(hist, true, false)
		for i := range d {
			if !sameRec(d[i], b[i]) {
				return &core.Viol{Class: "output-differs @ " + trunc(hist[i], 60), Detail: fmt.Sprintf("input %d (%q) at debug log level with the cache on: %s ; cache off: %s", i, hist[i], d[i], b[i]), Case: core.Case{Kind: "hist", Data: text}}
			}
		}
	}
	return nil
}

func runC04(c *core.Ctx) {
	depth := 3
	alpha := c04Inputs
	if !c.Quick() {
		depth = 4
	}
	n := len(alpha)
	ok := enumTuples(n, depth, func(idx []int) bool {
		if len(idx) == 0 {
			return true
		}
		if c.P.Evals&0xff == 0 && c.Expired() {
			return false
		}
		hist := make([]string, len(idx))
		for i, x := range idx {
			hist[i] = alpha[x]
		}
		key := strings.Join(hist, " ;; ")
		if !c.MineNoDedup("hist", key) {
			return true
		}
		c.Current(core.Case{Kind: "hist", Data: key})
		v := c.Run(func() *core.Viol { return c04Diff(hist) })
		out := "same"
		if v != nil {
			out = v.Class
		}
		c.CountNT("hist: "+trunc(key, 160), out, true)
		c.P.Traces++
		c.P.Transitions += int64(len(hist)) * 4
		return true
	})
	c.P.States = c.P.Traces
	if ok {
		c.P.Bound = fmt.Sprintf("every history of <=%d inputs over a %d-input alphabet on one persistent state; cache on vs off, each with registers on and off; histories of <=2 inputs also at debug log level", depth, n)
	}
}

func init() {
	core.Register(&core.Check{
		ID:          "C04",
		Level:       "model_checking",
		Rule:        "depth-bounded complete exploration of REPL histories: every sequence of <=3 (thorough 4) inputs over an alphabet of ~40 inputs (define/redefine a callee, closures with identical inner text capturing lower-case / upper-case / function-valued variables, functions that print, fail, read and write globals, wrap a non-deterministic extension, take hashable and unhashable arguments, 5 arguments, -0.0/0.0, 1/1.0/\"1\"/true, recursion, functions whose printed text coincides) run on one persistent state with the function cache on and off (build-tag hook), each with registers on and off. Oracle: identical output (order and multiplicity), shown results and error texts for every input. Non-trivial = every history (each replays real calls); distinct by the input sequence. The alphabet includes names bound nowhere when first read (error caught), constants rebound to equal-but-different values (-0.0 for 0.0, [1.0] for [1]) and same-text functions made by two unjson states.",
		Assume:      []string{"cache disabled through the verif build-tag hook eval.VerifCacheOff (lookups miss, stores are no-ops)", "non-deterministic extensions modelled by verif_counter() (DontCache)"},
		QuickCap:    300 * time.Second,
		ThoroughCap: 20 * time.Minute,
		HangLimit:   240 * time.Second,
		Run:         runC04,
		Replay: func(c *core.Ctx, cs core.Case) *core.Viol {
			return c04Diff(strings.Split(cs.Data, " ;; "))
		},
	})
}
