// Package checks holds one file per property.
package checks

import (
	"io"
	"os"
	"sync"

	"fortio.org/log"
	"grol.io/grol/eval"
	"grol.io/grol/extensions"
	"grol.io/grol/object"
	"verif/internal/core"
)

// The extension tables are process globals initialised once; the IO configuration of a
// process is chosen by VERIF_IOCFG (default: restricted IO with load/save, which is the
// safe configuration the checks run under; C17 starts children with the others).
func init() {
	log.SetOutput(io.Discard)
	log.SetLogLevelQuiet(log.Fatal)
	cfg := extensions.Config{HasLoad: true, HasSave: true}
	switch os.Getenv("VERIF_IOCFG") {
	case "emptyonly":
		cfg.LoadSaveEmptyOnly = true
	case "disabled":
		cfg.HasLoad, cfg.HasSave = false, false
	case "unrestricted":
		cfg.UnrestrictedIOs = true
	}
	if err := extensions.Init(&cfg); err != nil {
		panic(err)
	}
	if os.Getenv("VERIF_IOCFG_REINIT") != "" {
		// later Init calls with other configurations (what a library user or a test does "to be safe"): the
		// configuration of the process stays the first one
		_ = extensions.Init(nil)
		_ = extensions.Init(&extensions.Config{HasLoad: true, HasSave: true, UnrestrictedIOs: true})
		_ = extensions.Init(&extensions.Config{HasLoad: true, HasSave: true})
		_ = extensions.Init(&extensions.Config{HasLoad: true, HasSave: true, LoadSaveEmptyOnly: true, UnrestrictedIOs: true})
		_ = extensions.Init(&extensions.Config{})
	}
	registerHarnessExtensions()
}

// verifCounter backs verif_counter(), a deterministic stand-in for non-deterministic extensions (rand, time.now).
var verifCounter int64

// Harness extensions, added through the public object.CreateFunction API:
//
//	verif_counter()  DontCache, returns 0,1,2,... (reset per session by the harness)
//	verif_panic()    raises a Go runtime panic inside the evaluator (so checks about recovered panics do not
//	                 depend on grol keeping a crashing operator)
//	verif_cancel()   cancels the evaluation context (State.Cancel), like a deadline or ^C landing mid-evaluation
func registerHarnessExtensions() {
	must := func(err error) {
		if err != nil {
			panic(err)
		}
	}
	must(object.CreateFunction(object.Extension{Name: "verif_counter", MinArgs: 0, MaxArgs: 0, DontCache: true,
		Callback: func(_ any, _ string, _ []object.Object) object.Object {
			verifCounter++
			return object.Integer{Value: verifCounter - 1}
		}}))
	must(object.CreateFunction(object.Extension{Name: "verif_panic", MinArgs: 0, MaxArgs: 0, DontCache: true,
		Callback: func(_ any, _ string, _ []object.Object) object.Object {
			var m map[string]int
			m["boom"] = 1 // assignment to entry in nil map: a genuine Go runtime panic
			return object.NULL
		}}))
	// library-style extensions that use their argument slice as scratch space (sort it, normalise it): the caller's
	// arrays must not be affected (C06)
	must(object.CreateFunction(object.Extension{Name: "verif_scramble", MinArgs: 0, MaxArgs: -1,
		Callback: func(_ any, _ string, args []object.Object) object.Object {
			n := len(args)
			for i := range args {
				args[i] = object.Integer{Value: -1}
			}
			return object.Integer{Value: int64(n)}
		}}))
	must(object.CreateFunction(object.Extension{Name: "verif_fsum", MinArgs: 1, MaxArgs: -1, ArgTypes: []object.Type{object.FLOAT, object.FLOAT, object.FLOAT, object.FLOAT, object.FLOAT, object.FLOAT, object.FLOAT, object.FLOAT, object.FLOAT, object.FLOAT, object.FLOAT, object.FLOAT},
		Callback: func(_ any, _ string, args []object.Object) object.Object {
			t := 0.0
			for _, a := range args {
				if f, ok := a.(object.Float); ok {
					t += f.Value
				}
			}
			return object.Float{Value: t}
		}}))
	must(object.CreateFunction(object.Extension{Name: "verif_cancel", MinArgs: 0, MaxArgs: 0, DontCache: true,
		Callback: func(st any, _ string, _ []object.Object) object.Object {
			if s, ok := st.(*eval.State); ok && s.Cancel != nil {
				s.Cancel()
			}
			return object.NULL
		}}))
}

// observation sink: every implementation evaluation made by a check is recorded (hash only) so that the evidence
// can state how many distinct behaviours the explored cases exhibited (core.Ctx.Observe).
var (
	obsMu  sync.Mutex
	obsCtx *core.Ctx
)

func setObs(c *core.Ctx) { obsCtx = c }

func init() { core.OnRun = setObs }

func observe(parts ...string) {
	if obsCtx == nil {
		return
	}
	obsMu.Lock()
	obsCtx.Observe(parts...)
	obsMu.Unlock()
}
