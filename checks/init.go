// Package checks holds one file per property.
package checks

import (
	"io"
	"os"

	"fortio.org/log"
	"grol.io/grol/extensions"
)

// The extension tables are process globals initialised once; the IO configuration of a
// process is chosen by VERIF_IOCFG (default: restricted IO with load/save, which is the
// safe configuration the checks run under; C17 starts children with the others).
func init() {
	log.SetOutput(io.Discard)
	log.SetLogLevelQuiet(log.Fatal)
	cfg := extensions.Config{HasLoad: true, HasSave: true}
	switch os.Getenv("VERIF_IOCFG") {
	case "emptyonly":
		cfg.LoadSaveEmptyOnly = true
	case "disabled":
		cfg.HasLoad, cfg.HasSave = false, false
	case "unrestricted":
		cfg.UnrestrictedIOs = true
	}
	if err := extensions.Init(&cfg); err != nil {
		panic(err)
	}
}
