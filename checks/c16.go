package checks

import (
	"fmt"
	"strings"
	"time"
	"unicode/utf8"

	"grol.io/grol/lexer"
	"grol.io/grol/token"
	"verif/internal/core"
)

// C16 — the lexer is lossless: tokens tile the input.
//
// Reference model: refLex, an independent table-driven scanner for the token grammar
// (operators by maximal munch, identifiers/keywords, strings with the documented escapes,
// comments). Numbers are the one place where the reference does not predict the extent
// (the property only demands "text equals the bytes it spans" for them); for numbers the
// oracle is literal==segment plus a shape test.

var c16Keywords = map[string]string{
	"func": "FUNC", "true": "TRUE", "false": "FALSE", "if": "IF", "else": "ELSE", "return": "RETURN",
	"for": "FOR", "break": "BREAK", "continue": "CONTINUE", "macro": "MACRO", "quote": "QUOTE",
	"unquote": "UNQUOTE", "len": "LEN", "first": "FIRST", "rest": "REST", "print": "PRINT",
	"println": "PRINTLN", "log": "LOG", "error": "ERROR", "catch": "CATCH", "del": "DEL",
}

var c16Op2 = map[string]string{
	"==": "EQ", "!=": "NOTEQ", ":=": "DEFINE", "=>": "LAMBDA", "++": "INCR", "--": "DECR", "||": "OR", "&&": "AND",
	"<<": "LEFTSHIFT", ">>": "RIGHTSHIFT", "<=": "LTEQ", ">=": "GTEQ", "..": "DOTDOT",
}

var c16Op1 = map[byte]string{
	'=': "ASSIGN", '+': "PLUS", '-': "MINUS", '!': "BANG", '*': "ASTERISK", '/': "SLASH", '%': "PERCENT", '<': "LT", '>': "GT",
	'&': "BITAND", '|': "BITOR", '^': "BITXOR", '~': "BITNOT", ',': "COMMA", ';': "SEMICOLON", '(': "LPAREN", ')': "RPAREN",
	'{': "LBRACE", '}': "RBRACE", '[': "LBRACKET", ']': "RBRACKET", ':': "COLON", '.': "DOT",
}

func c16IsWS(b byte) bool     { return b == ' ' || b == '\t' || b == '\n' || b == '\r' }
func c16IsLetter(b byte) bool { return b == '_' || (b >= 'a' && b <= 'z') || (b >= 'A' && b <= 'Z') }
func c16IsDigit(b byte) bool  { return b >= '0' && b <= '9' }

type refTok struct {
	typ    string // token type name; "END" for the end marker; "NUM" for INT/FLOAT (extent not predicted)
	lit    string
	end    int  // position after the token (-1: not predicted)
	hasLit bool // literal predicted
}

func c16hex(b byte) byte {
	switch {
	case b >= '0' && b <= '9':
		return b - '0'
	case b >= 'a' && b <= 'f':
		return b - 'a' + 10
	case b >= 'A' && b <= 'F':
		return b - 'A' + 10
	}
	return 0
}

// refString scans a string starting at in[p] (the opening quote). Returns decoded content,
// end position and whether it was terminated. Reading past the end yields "end of input".
func refString(in []byte, p int) (string, int, bool) {
	q := in[p]
	p++
	var sb strings.Builder
	get := func() (byte, bool) { // next byte, or false at end of input
		if p >= len(in) {
			p++
			return 0, false
		}
		b := in[p]
		p++
		return b, true
	}
	hexn := func(n int) (rune, bool) {
		var r rune
		ok := true
		for i := 0; i < n; i++ {
			b, o := get()
			if !o {
				ok = false
			}
			r = r<<4 | rune(c16hex(b))
		}
		return r, ok
	}
	for {
		b, ok := get()
		if !ok {
			return sb.String(), len(in), false
		}
		if b == q {
			return sb.String(), p, true
		}
		if q == '"' && b == '\\' {
			e, ok := get()
			if !ok {
				return sb.String(), len(in), false
			}
			switch e {
			case 'n':
				sb.WriteByte('\n')
			case 'r':
				sb.WriteByte('\r')
			case 't':
				sb.WriteByte('\t')
			case 'a':
				sb.WriteByte(7)
			case 'b':
				sb.WriteByte(8)
			case 'f':
				sb.WriteByte(12)
			case 'v':
				sb.WriteByte(11)
			case 'x':
				r, _ := hexn(2)
				sb.WriteByte(byte(r))
			case 'u':
				r, _ := hexn(4)
				sb.WriteRune(r)
			case 'U':
				r, _ := hexn(8)
				sb.WriteRune(r)
			default:
				sb.WriteByte(e)
			}
			if p > len(in) { // escape ran off the end of the input
				return sb.String(), len(in), false
			}
			continue
		}
		sb.WriteByte(b)
	}
}

// refNext predicts the token starting at the first non-whitespace byte at or after p.
func refNext(in []byte, p int) (start int, t refTok) {
	for p < len(in) && c16IsWS(in[p]) {
		p++
	}
	start = p
	if p >= len(in) {
		return start, refTok{typ: "END", end: len(in), hasLit: true}
	}
	b := in[p]
	var nb byte
	if p+1 < len(in) {
		nb = in[p+1]
	}
	has2 := p+1 < len(in)
	switch {
	case c16IsLetter(b):
		e := p
		for e < len(in) && (c16IsLetter(in[e]) || c16IsDigit(in[e])) {
			e++
		}
		w := string(in[p:e])
		typ := "IDENT"
		if k, ok := c16Keywords[w]; ok {
			typ = k
		}
		return start, refTok{typ: typ, lit: w, end: e, hasLit: true}
	case c16IsDigit(b) || (b == '.' && has2 && c16IsDigit(nb)):
		return start, refTok{typ: "NUM", end: -1}
	case b == '"' || b == '`':
		s, e, ok := refString(in, p)
		if !ok {
			return start, refTok{typ: "END", end: len(in), hasLit: true}
		}
		return start, refTok{typ: "STRING", lit: s, end: e, hasLit: true}
	case b == '/' && has2 && nb == '/':
		e := p
		for e < len(in) && in[e] != '\n' {
			e++
		}
		return start, refTok{typ: "LINECOMMENT", lit: strings.TrimSpace(string(in[p:e])), end: e, hasLit: true}
	case b == '/' && has2 && nb == '*':
		e := p + 2
		for {
			if e >= len(in) {
				return start, refTok{typ: "BLOCKCOMMENT", lit: string(in[p:]), end: len(in), hasLit: true}
			}
			if in[e] == '*' && e+1 < len(in) && in[e+1] == '/' {
				return start, refTok{typ: "BLOCKCOMMENT", lit: string(in[p : e+2]), end: e + 2, hasLit: true}
			}
			e++
		}
	}
	if has2 {
		if t, ok := c16Op2[string(in[p:p+2])]; ok {
			return start, refTok{typ: t, lit: string(in[p : p+2]), end: p + 2, hasLit: true}
		}
	}
	if t, ok := c16Op1[b]; ok {
		return start, refTok{typ: t, lit: string(b), end: p + 1, hasLit: true}
	}
	return start, refTok{typ: "ILLEGAL", lit: string(b), end: p + 1, hasLit: true}
}

func c16NumShape(s string) bool {
	if s == "" {
		return false
	}
	if !(c16IsDigit(s[0]) || (s[0] == '.' && len(s) > 1 && c16IsDigit(s[1]))) {
		return false
	}
	for i := 0; i < len(s); i++ {
		b := s[i]
		ok := c16IsDigit(b) || b == '_' || b == '.' || b == 'e' || b == 'E' || b == '+' || b == '-' || b == 'x' || b == 'b' ||
			(b >= 'a' && b <= 'f') || (b >= 'A' && b <= 'F')
		if !ok {
			return false
		}
	}
	return true
}

type internKey struct {
	t token.Type
	l string
}

type c16State struct {
	interned map[internKey]*token.Token
}

func c16One(st *c16State, in []byte, lineMode bool, kind string) *core.Viol {
	var l *lexer.Lexer
	endName := "EOF"
	cfg := "file"
	if lineMode {
		l = lexer.NewLineMode(string(in))
		endName = "EOL"
		cfg = "line"
	} else {
		l = lexer.NewBytes(in)
	}
	n := len(in)
	mk := func(class, detail string) *core.Viol {
		return &core.Viol{Class: class, Detail: detail, Case: core.BytesCase(kind, cfg, in)}
	}
	clip := func(p int) int {
		if p > n {
			return n
		}
		return p
	}
	refPos := 0
	for count := 0; ; count++ {
		if count > n+1 {
			return mk("no-end-marker", fmt.Sprintf("more than n+1=%d tokens without end marker", n+1))
		}
		p0 := clip(l.Pos())
		tok := l.NextToken()
		if tok == nil {
			return mk("nil-token", fmt.Sprintf("at %d", p0))
		}
		p1 := clip(l.Pos())
		if p0 != refPos && !(refPos > n) {
			return mk("position-jump", fmt.Sprintf("token %d starts at %d, previous ended at %d", count, p0, refPos))
		}
		if p1 < p0 {
			return mk("position-backwards", fmt.Sprintf("pos %d -> %d", p0, p1))
		}
		start, want := refNext(in, p0)
		tname := tok.Type().String()
		lit := tok.Literal()
		body := string(in[start:p1])
		if start > p1 {
			body = ""
		}
		isEnd := tname == "EOF" || tname == "EOL"
		if want.typ == "END" {
			if !isEnd {
				return mk("token-after-end", fmt.Sprintf("at %d expected end marker, got %s %q", p0, tname, lit))
			}
			if tname != endName {
				return mk("wrong-end-marker", fmt.Sprintf("got %s want %s", tname, endName))
			}
			if p1 != n {
				return mk("end-marker-before-end", fmt.Sprintf("end marker with pos %d < %d", p1, n))
			}
			// keeps returning it
			for k := 0; k < 3; k++ {
				t2 := l.NextToken()
				if t2 != tok {
					return mk("end-marker-not-sticky", fmt.Sprintf("call %d after end returned %s %q", k+1, t2.Type(), t2.Literal()))
				}
			}
			return nil
		}
		if isEnd {
			return mk("early-end-marker", fmt.Sprintf("end marker at %d but input continues with %q (reference expects %s)", p0, trunc(string(in[start:]), 20), want.typ))
		}
		switch want.typ {
		case "NUM":
			if tname != "INT" && tname != "FLOAT" {
				return mk("type-mismatch", fmt.Sprintf("at %d reference NUM, lexer %s %q", start, tname, lit))
			}
			if lit != body {
				return mk("number-bytes-lost", fmt.Sprintf("number literal %q but spans %q", lit, body))
			}
			if !c16NumShape(lit) {
				return mk("number-shape", fmt.Sprintf("number literal %q", lit))
			}
		default:
			if tname != want.typ {
				return mk("type-mismatch", fmt.Sprintf("at %d reference %s %q, lexer %s %q", start, want.typ, want.lit, tname, lit))
			}
			if p1 != want.end {
				return mk("extent-mismatch", fmt.Sprintf("%s at %d: reference ends %d, lexer %d", tname, start, want.end, p1))
			}
			// the property does not fix the text of ILLEGAL tokens (only their extent)
			if lit != want.lit && tname != "ILLEGAL" {
				return mk("literal-mismatch", fmt.Sprintf("%s at %d: reference literal %q, lexer %q", tname, start, want.lit, lit))
			}
			if tname != "STRING" && tname != "LINECOMMENT" && tname != "ILLEGAL" && lit != body {
				return mk("text-not-span", fmt.Sprintf("%s literal %q spans %q", tname, lit, body))
			}
		}
		if tname == "IDENT" {
			if _, kw := c16Keywords[lit]; kw {
				return mk("keyword-as-ident", lit)
			}
		}
		// interning: equal tokens are one shared object, within and across inputs
		k := internKey{tok.Type(), lit}
		if prev, ok := st.interned[k]; ok {
			if prev != tok {
				return mk("not-interned", fmt.Sprintf("%s %q delivered as two different objects", tname, lit))
			}
		} else {
			st.interned[k] = tok
		}
		refPos = p1
	}
}

func trunc(s string, n int) string {
	if len(s) > n {
		return s[:n] + "…"
	}
	return s
}

// enumStrings calls f with every string of length 0..maxLen over alphabet (bytes), shortest first.
func enumStrings(alpha []byte, maxLen int, f func(b []byte) bool) bool {
	buf := make([]byte, maxLen)
	idx := make([]int, maxLen)
	for L := 0; L <= maxLen; L++ {
		for i := 0; i < L; i++ {
			idx[i] = 0
			buf[i] = alpha[0]
		}
		for {
			if !f(buf[:L]) {
				return false
			}
			// increment
			i := L - 1
			for i >= 0 {
				idx[i]++
				if idx[i] < len(alpha) {
					buf[i] = alpha[idx[i]]
					break
				}
				idx[i] = 0
				buf[i] = alpha[0]
				i--
			}
			if i < 0 {
				break
			}
		}
	}
	return true
}

var c16Sig = []byte{'0', '1', '9', 'a', 'e', 'E', 'x', 'b', '_', 'f', '.', '+', '-', '"', '`', '\\', '/', '*', '=', '!', ':', '<', '>', '&', '|', ' ', '\n', 0, 0xC3, '@'}
var c16Num = []byte{'0', '1', '_', '.', 'e', 'E', '+', '-', 'x', 'b', 'a', ' '}
var c16Str = []byte{'"', '\\', 'x', 'u', 'U', 'n', '4', 'a', 'g', '`', '\n', ' ', 'v'}
var c16Cmt = []byte{'/', '*', ' ', '\n', 'a', '\r', '\t', '"'}

func c16Families(c *core.Ctx) []struct {
	name  string
	alpha []byte
	max   int
} {
	type fam = struct {
		name  string
		alpha []byte
		max   int
	}
	all := make([]byte, 256)
	for i := range all {
		all[i] = byte(i)
	}
	if c.Quick() {
		return []fam{{"sig", c16Sig, 4}, {"num", c16Num, 6}, {"str", c16Str, 5}, {"cmt", c16Cmt, 6}, {"bytes", all, 2}}
	}
	return []fam{{"sig", c16Sig, 5}, {"num", c16Num, 7}, {"str", c16Str, 7}, {"cmt", c16Cmt, 8}, {"bytes", all, 2}}
}

// c16Dictionary lexes one input holding ~1.6 million distinct identifiers (plus strings and comments built from them)
// and checks that every token carries exactly its own text: a table of shared tokens keyed by anything weaker than
// the text itself (a 32-bit hash has ~290 expected collisions here) hands back another literal.
func c16Dictionary(c *core.Ctx, id string) {
	if c.Shard != 0 && c.Of > 1 {
		return
	}
	var words []string
	enumStrings([]byte("abcdefghijklmnopqrstuvwxyz"), 4, func(b []byte) bool {
		if len(b) > 0 {
			words = append(words, string(b))
		}
		return true
	})
	enumStrings([]byte("abcdefghij"), 6, func(b []byte) bool {
		if len(b) >= 5 {
			words = append(words, "q"+string(b))
		}
		return true
	})
	var sb strings.Builder
	for i, w := range words {
		switch i % 16 {
		case 5:
			sb.WriteString("\"" + w + "\" ")
		case 11:
			sb.WriteString("/*" + w + "*/ ")
		default:
			sb.WriteString(w + " ")
		}
	}
	text := sb.String()
	cs := core.Case{Kind: "dictionary", Data: fmt.Sprintf("%d words", len(words))}
	c.Current(cs)
	v := c.Run(func() *core.Viol {
		for pass := 0; pass < 2; pass++ {
			l := lexer.New(text)
			for i, w := range words {
				tok := l.NextToken()
				want := w
				if i%16 == 11 {
					want = "/*" + w + "*/"
				}
				if tok.Literal() != want {
					return &core.Viol{Class: "dictionary:token-text-differs", Detail: fmt.Sprintf("word %d of %d: token %q for source %q (pass %d)", i, len(words), trunc(tok.Literal(), 40), want, pass), Case: cs}
				}
			}
		}
		return nil
	})
	out := "dictionary-ok"
	if v != nil {
		out = v.Class
	}
	c.CountNT(fmt.Sprintf("dictionary of %d distinct words lexed twice", len(words)), out, true)
}

// histories over one reused input buffer (lexer.NewBytes keeps the caller's slice: a file read chunk by chunk, a
// scanner buffer) and the public token.ResetInterning(): tokens already delivered keep their text, equal tokens
// delivered since the last reset are one object, keywords stay keywords
var c16ReuseTexts = []string{"alpha1 + beta22", "gamma9 - delta00", "// c1\nx1", "// c2\ny2", "/* cc */ z", "/* dd */ w", "12345 67.5", "54321 76.5", "if len(x) { return }", "fi nel(y) [ nruter ]", "`raw` \"str\"", "`war` \"rts\""}

func c16Reuse(c *core.Ctx) int {
	type rec struct {
		tok  *token.Token
		typ  token.Type
		lit  string
		step int
	}
	depth := 3
	actions := len(c16ReuseTexts) + 1 // the last one is ResetInterning
	token.Init()
	golden := make([]string, len(c16ReuseTexts))
	for i, text := range c16ReuseTexts {
		l := lexer.New(text)
		var got []string
		for k := 0; k < 64; k++ {
			t := l.NextToken()
			if t == nil || t.Type() == token.EOF {
				break
			}
			got = append(got, t.Type().String()+":"+t.Literal())
		}
		golden[i] = strings.Join(got, " ")
	}
	n := 0
	enumTuples(actions, depth, func(idx []int) bool {
		key := fmt.Sprint(idx)
		if !c.MineNoDedup("reuse", key) {
			return true
		}
		n++
		cs := core.Case{Kind: "reuse", Data: strings.Trim(strings.ReplaceAll(key, " ", ","), "[]")}
		c.Current(cs)
		v := c.Run(func() *core.Viol {
			token.Init()
			buf := make([]byte, 64)
			var seen []rec
			since := 0 // index in seen of the first token delivered after the last reset
			for step, a := range idx {
				if a == len(c16ReuseTexts) {
					token.ResetInterning()
					since = len(seen)
				} else {
					text := c16ReuseTexts[a]
					for i := range buf {
						buf[i] = ' '
					}
					copy(buf, text)
					l := lexer.NewBytes(buf[:len(text)])
					for k := 0; k < 64; k++ {
						t := l.NextToken()
						if t == nil || t.Type() == token.EOF {
							break
						}
						seen = append(seen, rec{t, t.Type(), strings.Clone(t.Literal()), step})
					}
					// the text lexes as it does first thing in a process
					var got []string
					for _, r := range seen {
						if r.step == step {
							got = append(got, r.typ.String()+":"+r.lit)
						}
					}
					if g := strings.Join(got, " "); g != golden[a] {
						return &core.Viol{Class: "reuse:tokens-differ", Detail: fmt.Sprintf("step %d %q lexed as %q, first thing in a process as %q", step, text, g, golden[a]), Case: cs}
					}
				}
				for i, r := range seen {
					if r.tok.Literal() != r.lit || r.tok.Type() != r.typ {
						return &core.Viol{Class: "reuse:delivered-token-changed", Detail: fmt.Sprintf("after step %d the token %s %q delivered at step %d reads %s %q", step, r.typ, r.lit, r.step, r.tok.Type(), r.tok.Literal()), Case: cs}
					}
					if i < since {
						continue
					}
					for _, q := range seen[since:i] {
						if same := q.typ == r.typ && q.lit == r.lit; same != (q.tok == r.tok) {
							return &core.Viol{Class: "reuse:not-interned", Detail: fmt.Sprintf("%s %q (step %d) and %s %q (step %d): same object %v", q.typ, q.lit, q.step, r.typ, r.lit, r.step, q.tok == r.tok), Case: cs}
						}
					}
				}
			}
			return nil
		})
		o := "reuse-ok"
		if v != nil {
			o = v.Class
		}
		c.CountNT("reuse: "+key, o, true)
		return true
	})
	token.Init()
	return n
}

func runC16(c *core.Ctx) {
	st := &c16State{interned: map[internKey]*token.Token{}}
	token.Init()
	bound := []string{}
	for _, fam := range c16Families(c) {
		ok := enumStrings(fam.alpha, fam.max, func(b []byte) bool {
			if c.P.Evals&0xfff == 0 && c.Expired() {
				return false
			}
			key := string(b)
			if !c.MineNoDedup(fam.name, key) {
				return true
			}
			in := append([]byte(nil), b...)
			for _, lm := range []bool{false, true} {
				v := c.Run(func() *core.Viol { return c16One(st, in, lm, fam.name) })
				out := c16Shape(in, lm)
				if v != nil {
					out = v.Class
				}
				c.CountNT(fam.name+":"+printableKey(in), out, len(in) > 0)
			}
			return true
		})
		if !ok {
			break
		}
		bound = append(bound, fmt.Sprintf("%s<=%d", fam.name, fam.max))
	}
	// every escape sequence inside strings of both quote styles, with text before/after it and after the string
	{
		var escs []string
		for b := 0; b < 256; b++ {
			escs = append(escs, fmt.Sprintf("\\x%02x", b), fmt.Sprintf("\\x%02X", b), "\\"+string([]byte{byte(b)}))
		}
		for _, u := range []string{"0000", "0022", "005c", "000a", "0041", "00e9", "d800", "dfff", "ffff", "fffd", "2028"} {
			escs = append(escs, "\\u"+u, "\\U0000"+u)
		}
		escs = append(escs, "\\U0001F600", "\\U00110000", "\\000", "\\042", "\\134", "\\377", "\\x2", "\\x", "\\u00", "\\U0000")
		n := 0
		for _, e := range escs {
			for _, q := range []string{"\"", "`"} {
				for _, pre := range []string{"", "a"} {
					for _, post := range []string{"", "b", "\\"} {
						for _, tail := range []string{"", " + t", q, "\n"} {
							in := []byte(q + pre + e + post + q + tail)
							if !c.MineNoDedup("esc", string(in)) {
								continue
							}
							n++
							for _, lm := range []bool{false, true} {
								v := c.Run(func() *core.Viol { return c16One(st, in, lm, "esc") })
								out := c16Shape(in, lm)
								if v != nil {
									out = v.Class
								}
								c.CountNT("esc:"+printableKey(in), out, true)
							}
						}
					}
				}
			}
		}
		bound = append(bound, fmt.Sprintf("%d escape spellings (\\xHH for all 256 values in both cases, backslash + every byte, \\u/\\U boundary values, octal, truncated) x 2 quote styles x 2 prefixes x 3 suffixes x 4 continuations", len(escs)))
	}
	c16Dictionary(c, "C16")
	bound = append(bound, "one input of ~1.6 million distinct identifiers / strings / comments lexed twice, every token text compared with its source")
	// keywords and builtins alone and followed by each significant byte
	for kw := range c16Keywords {
		for _, b := range append([]byte{}, c16Sig...) {
			for _, pre := range []string{"", "x", " "} {
				in := []byte(pre + kw + string(b))
				if !c.MineNoDedup("kw", string(in)) {
					continue
				}
				for _, lm := range []bool{false, true} {
					v := c.Run(func() *core.Viol { return c16One(st, in, lm, "kw") })
					out := "ok"
					if v != nil {
						out = v.Class
					}
					c.CountNT("kw:"+printableKey(in), out, true)
				}
			}
		}
	}
	// long tokens: every value-token kind at every length around the powers of two up to 64Ki, twice in one
	// input (interning, tiling and extents must not depend on token length)
	var sizes []int
	for p := 8; p <= 65536; p *= 2 {
		sizes = append(sizes, p-1, p, p+1)
	}
	mkTok := func(kind string, n int) string {
		switch kind {
		case "ident":
			return strings.Repeat("a", n)
		case "int":
			return strings.Repeat("1", n)
		case "float":
			return "1." + strings.Repeat("5", n-2)
		case "hex":
			return "0x" + strings.Repeat("f", n-2)
		case "string":
			return "\"" + strings.Repeat("s", n-2) + "\""
		case "rawstring":
			return "`" + strings.Repeat("s", n-2) + "`"
		case "escstring":
			return "\"" + strings.Repeat("\\n", (n-2)/2) + "\""
		case "linecomment":
			return "//" + strings.Repeat("c", n-2) + "\n"
		case "blockcomment":
			return "/*" + strings.Repeat("c", n-4) + "*/"
		case "ws":
			return strings.Repeat(" ", n) + "x"
		case "illegal":
			return strings.Repeat("@", n)
		}
		return ""
	}
	for _, kind := range []string{"ident", "int", "float", "hex", "string", "rawstring", "escstring", "linecomment", "blockcomment", "ws", "illegal"} {
		for _, n := range sizes {
			if kind == "illegal" && n > 1025 {
				continue
			}
			t := mkTok(kind, n)
			for _, in := range []string{t, t + " " + t, "x " + t + " y " + t} {
				if !c.MineNoDedup("long", fmt.Sprintf("%s/%d/%d", kind, n, len(in))) {
					continue
				}
				b := []byte(in)
				for _, lm := range []bool{false, true} {
					v := c.Run(func() *core.Viol { return c16One(st, b, lm, "long") })
					out := "long-ok"
					if v != nil {
						out = v.Class
					}
					c.CountNT(fmt.Sprintf("long:%s x%d", kind, n), out, true)
				}
			}
		}
	}
	if !c.Expired() {
		nr := c16Reuse(c)
		bound = append(bound, fmt.Sprintf("%d histories of <=3 actions over %d texts lexed through one reused buffer (lexer.NewBytes) and token.ResetInterning()", nr, len(c16ReuseTexts)))
	}
	c.P.Bound = strings.Join(bound, ",") + ",long tokens of 11 kinds at lengths 2^k-1..2^k+1 (k=3..16)" + ",keywords x 30 followers x 3 prefixes; both lexer modes"
}

// c16Shape is the outcome class of a passing case: the multiset of token kinds seen (as a sorted set).
func c16Shape(in []byte, lineMode bool) string {
	var l *lexer.Lexer
	if lineMode {
		l = lexer.NewLineMode(string(in))
	} else {
		l = lexer.NewBytes(in)
	}
	var seen [256]bool
	for i := 0; i <= len(in)+1; i++ {
		t := l.NextToken()
		seen[t.Type()] = true
		if t.Type() == token.EOF || t.Type() == token.EOL {
			break
		}
	}
	var sb strings.Builder
	for i, s := range seen {
		if s {
			sb.WriteString(token.Type(i).String())
			sb.WriteByte(' ')
		}
	}
	return sb.String()
}

func printableKey(b []byte) string {
	if utf8.Valid(b) {
		ok := true
		for _, x := range b {
			if x < 0x20 && x != '\n' || x == 0x7f {
				ok = false
			}
		}
		if ok {
			return string(b)
		}
	}
	return fmt.Sprintf("%q", b)
}

func init() {
	core.Register(&core.Check{
		ID:    "C16",
		Level: "exploration",
		Rule: "every byte string up to length L over the 30-byte significant alphabet, the 12-byte numeric alphabet, a string-escape alphabet, a comment alphabet, all <=2-byte strings over all 256 values, and every keyword followed by each significant byte; each in file and line mode. A case is one (input, mode); non-trivial = non-empty input. Each case is lexed by the real lexer and by an independent reference scanner; tiling, text, extent, end-marker, interning and keyword clauses are compared token by token. Histories of <=3 actions over texts lexed through one reused caller buffer (lexer.NewBytes) and token.ResetInterning(): delivered tokens keep their text, equal tokens since the last reset are one object, keywords stay keywords.",
		Assume: []string{"lexer driven through NextToken/Pos only", "numbers: extent is not predicted by the reference, only literal==span and shape"},
		QuickCap: 100 * time.Second, ThoroughCap: 15 * time.Minute,
		Run: runC16,
		Replay: func(c *core.Ctx, cs core.Case) *core.Viol {
			token.Init()
			st := &c16State{interned: map[internKey]*token.Token{}}
			return c16One(st, cs.Bytes(), cs.Cfg == "line", cs.Kind)
		},
	})
}
