package checks

import (
	"fmt"
	"fortio.org/log"
	"regexp"
	"strings"
	"time"

	"verif/internal/core"
	"verif/internal/ref"
)

// C06 — arrays and maps are values: no aliasing, at any size. Depth-bounded histories of bind / copy / mutate
// operations on three variables; after every operation the value of every variable is compared with the
// reference evaluator, whose containers are immutable values without size thresholds.

func c06Arr(n int) string {
	parts := make([]string, n)
	for i := range parts {
		parts[i] = fmt.Sprint(i)
	}
	return "[" + strings.Join(parts, ", ") + "]"
}

func c06Map(n int) string {
	parts := make([]string, n)
	for i := range parts {
		parts[i] = fmt.Sprintf("%d: %d", i, i*10)
	}
	return "{" + strings.Join(parts, ", ") + "}"
}

func c06Ops(sub bool) []string {
	var ops []string
	arrSizes := []int{0, 1, 7, 8, 9, 10, 20}
	mapSizes := []int{0, 1, 3, 4, 5, 6, 20}
	if sub {
		arrSizes = []int{8, 9}
		mapSizes = []int{4, 5}
	}
	for _, n := range arrSizes {
		ops = append(ops, "a = "+c06Arr(n))
	}
	for _, n := range mapSizes {
		ops = append(ops, "a = "+c06Map(n))
	}
	ops = append(ops,
		"b = a", "c = [a, 0]", "a[0] = 100", "a[-1] = 101", "b[0] = 108", "a = a + [103]", "b = a + b", "a = a + 104",
		"del(a[0])", "b = a[1:]", "b = a[0:-1]", "b = rest(a)", "func(p) { p[0] = 105; p }(a)", "x = c[0]; x[0] = 107", "b = a + {0: 5}", "a = a + {200: 1}",
		"b = a + 7; c = a + 8", "b = {\"x\": 0} + a", "c = {0: 1} + a; c[300] = 1",
		"func(k) { del(a[k]) }(0)", "func() { a[1] = 109 }()", "for i = 3 { c[i] = i }", "func() { for i = 2 { b[i] = a } }()",
		// derived values that may share storage with their source: slices then append / merge, two results from one base
		"b = a[0:6]", "c = b + {100: 100}", "c = b + 110", "c = a + {300: 1}; b = a + {400: 2}", "c = a + 111; b = a + 112", "a[50] = 1", "a = a + 113; b = a; a = a + 114; b = b + 115", "b = a[0:16]; b = b + 116", "b = a[0:10]", "c = b + 117", "b = a + 118; c = b + 119; b = b + 120",
		// three-operand chains with an empty middle operand, results forked from one chain-built base
		"c = b + [] + [121]", "c = a + [] + [122]; b = a + [] + [123]", "b = a + [124] + []; c = b + [] + [125]; b = b + [] + [126]",
		// ten values collected by a variadic function, then another call with as many arguments
		"c = func(..) { .. }(1, 2, 3, 4, 5, 6, 7, 8, 9, 10); b = c; func(..) { 0 }(10, 20, 30, 40, 50, 60, 70, 80, 90, 100)",
		"vf = func(..) { .. }; b = vf(1, 2, 3, 4, 5, 6, 7, 8, 9, 10); c = vf(11, 12, 13, 14, 15, 16, 17, 18, 19, 20)", "c = func(p, ..) { [p, ..] }(a, 1, 2, 3, 4, 5, 6, 7, 8, 9, 10); len(func(p, ..) { .. }(0, 0, 0, 0, 0, 0, 0, 0, 0, 0, 0))",
		// a container of an outer scope handed on from inside a function: variadic arguments, literals, locals, parameters
		"c = func() { func(..) { .. }(a) }()", "c = func() { [a, {\"k\": a}] }()", "c = func() { x = a; x }()", "c = func() { func(p) { [p] }(a) }()", "c = func() { func(p, ..) { [p, ..] }(b, a) }()")
	// a variable assigned from inside a function (through a reference to the outer variable) between two in-place-looking
	// updates of it
	ops = append(ops, "func() { a = b }()", "func() { b = a }()", "a[0] = 120; func() { a = b }(); a[1] = 121", "del(a[0]); func() { a = b }(); del(a[1])", "b[0] = 122; func() { b = a }(); b[1] = 123",
		"a[0] = 124; sw = func() { c = a; a = b }; sw(); a[-1] = 125",
		// library extensions that scribble on / normalise their argument list, called with an array as the whole list
		"b = a; catch(verif_scramble(a))", "c = a; catch(verif_fsum(a))", "b = a; catch(verif_scramble(0, a))", "catch(max(a)); catch(sprintf(a))")
	// containers whose representation is large although their length is back under the threshold
	ops = append(ops, "a = "+c06Map(5)+"; del(a[4])", "a = {0: 1, 0: 2, 0: 3, 0: 4, 0: 5, 1: 6}", "a = "+c06Arr(12)+"; a = a[0:3]", "del(a[1]); del(a[2])")
	if !sub {
		ops = append(ops, "c = {\"k\": a}", "a = b", "b = c", "a[3] = 102", "c = a + [1]", "a[0] = a[0] + 1", "func(p) { p = p + [5]; 1 }(a)",
			"for e = a { a[0] = 106 }", "a = a * 2", "c = b + a", "m = a; m[1] = 55; b = m", "x = c.k; x[2] = 77", "b = a[2:5]; b[0] = 66", "a[8] = 88")
	}
	return ops
}

var c06ExtCall = regexp.MustCompile(`catch\((verif_\w+|max|sprintf)\([^)]*\)\)`)

const c06Init = "a = []; b = []; c = []"
const c06Observe = "[a, b, c]"

func c06Run(hist []string) *core.Viol {
	text := strings.Join(hist, " ;; ")
	cs := core.Case{Kind: "hist", Data: text}
	cfgs := []sessCfg{{}, {noReg: true, cacheOff: true}}
	if len(hist) <= 2 {
		cfgs = append(cfgs, sessCfg{}, sessCfg{}) // the shorter histories also at debug log level and on a state without context
	}
	for ci, cfg := range cfgs {
		in := ref.NewInterp()
		x := newSess(cfg)
		if ci == 2 {
			prev := log.GetLogLevel()
			log.SetLogLevelQuiet(log.Debug)
			defer log.SetLogLevelQuiet(prev)
		}
		if ci == 3 {
			x.noContext = true
		}
		in.Run(c06Init)
		implEval(x, c06Init, 100000)
		for i, op := range hist {
			// (calls of the harness's library extensions and of variadic built-in extensions are discarded observations:
			// the reference gets the operation without them; they must not change any variable)
			w := in.Run(c06ExtCall.ReplaceAllString(op, "1"))
			if w.Unsup != "" {
				return &core.Viol{Class: "unsupported", Detail: w.Unsup, Case: cs}
			}
			g := implEval(x, op, 100000)
			opk := reDigits.ReplaceAllString(op, "N")
			if g.isErr != w.IsErr {
				return &core.Viol{Class: "error-differs@" + opk, Detail: fmt.Sprintf("input %d (%q): implementation err=%v %q, reference err=%v %s", i, op, g.isErr, g.errText, w.IsErr, ref.Inspect(w.Val)), Case: cs, FindText: text}
			}
			wv := in.Run(c06Observe)
			gv := implEval(x, c06Observe, 100000)
			if gv.isErr || gv.val != ref.Dump(wv.Val) {
				// which variables differ
				var diff []string
				for _, name := range []string{"a", "b", "c"} {
					r1 := in.Run(name)
					r2 := implEval(x, name, 100000)
					if r2.isErr || r2.val != ref.Dump(r1.Val) {
						diff = append(diff, name)
					}
				}
				return &core.Viol{Class: "values-differ@" + opk + " vars=" + strings.Join(diff, ","),
					Detail: fmt.Sprintf("after input %d (%q): [a,b,c] = %s %s, reference %s", i, op, gv.val, gv.errText, ref.Dump(wv.Val)), Case: cs, FindText: text}
			}
		}
	}
	return nil
}

func runC06(c *core.Ctx) {
	var bounds []string
	explore := func(fam string, ops []string, depth int) bool {
		return enumTuples(len(ops), depth, func(idx []int) bool {
			if len(idx) == 0 {
				return true
			}
			if c.P.Evals&0xff == 0 && c.Expired() {
				return false
			}
			hist := make([]string, len(idx))
			for i, x := range idx {
				hist[i] = ops[x]
			}
			key := strings.Join(hist, " ;; ")
			if !c.Mine(fam, key) {
				return true
			}
			c.Current(core.Case{Kind: "hist", Data: key})
			vv := c06Run(hist)
			if vv != nil && vv.Class == "unsupported" {
				c.Count("hist: "+trunc(key, 160), "unsupported", false)
				return true
			}
			var v *core.Viol
			if vv != nil {
				v = c.Run(func() *core.Viol { return c06Run(hist) })
			}
			out := "no-aliasing"
			if v != nil {
				out = v.Class
			}
			c.Count("hist: "+trunc(key, 160), out, true)
			c.P.Traces++
			c.P.Transitions += int64(len(hist)) * 2
			return true
		})
	}
	full := c06Ops(false)
	ok := explore("hist", full, 3)
	if ok {
		bounds = append(bounds, fmt.Sprintf("every history of <=3 operations over %d operations (array sizes 0,1,7,8,9,10,20; map sizes 0,1,3,4,5,6,20)", len(full)))
		if !c.Quick() {
			sub := c06Ops(true)
			ok = explore("hist", sub, 5)
			if ok {
				bounds = append(bounds, fmt.Sprintf("every history of <=5 operations over a %d-operation sub-alphabet centred on the thresholds", len(sub)))
				ok = explore("hist", full[:41], 4)
				if ok {
					bounds = append(bounds, "every history of <=4 operations over the first 41 operations")
				}
			}
		}
	}
	c.P.States = c.P.Traces
	c.P.Bound = strings.Join(bounds, "; ") + "; default and plain configuration (histories of <=2 operations also at debug log level and on a state without context); all variables compared after every operation"
}

func init() {
	core.Register(&core.Check{
		ID:          "C06",
		Level:       "model_checking",
		Rule:        "depth-bounded complete exploration of histories on one session over variables a, b, c: binding arrays of sizes 0,1,7,8,9,10,20 and maps of sizes 0,1,3,4,5,6,20, copying (b = a, nesting in arrays and maps, passing to functions, slicing, rest), mutating (index assignment incl. negative, append and merge with +, element deletion, repetition, mutation during iteration, mutation through a copy or an extracted element). No state merging (hidden sharing is not captured by any observable key). The alphabet also has containers whose representation is large while their length is small again (deleted entries, repeated literal keys, slices), values derived from one base twice (two merges, slice then append), and outer-scope containers handed on from inside functions (variadic arguments, literals, locals, parameters). After every operation the structural dump of every variable equals the reference evaluator's (immutable values, no size thresholds) and the error/no-error outcome agrees. Non-trivial = compared histories; distinct by operation sequence. The operations include assignment of a variable from inside a function (through a reference) between two updates of it, and calls of library extensions that overwrite / normalise their argument list with an array as the whole list.",
		Assume:      []string{"reference evaluator of internal/ref"},
		QuickCap:    100 * time.Second,
		ThoroughCap: 20 * time.Minute,
		HangLimit:   240 * time.Second,
		Run:         runC06,
		Replay: func(c *core.Ctx, cs core.Case) *core.Viol {
			v := c06Run(strings.Split(cs.Data, " ;; "))
			if v != nil && v.Class == "unsupported" {
				return nil
			}
			return v
		},
	})
}
