package checks

import (
	"context"
	"fmt"
	"strings"
	"time"

	"grol.io/grol/ast"
	"grol.io/grol/eval"
	"grol.io/grol/repl"
	"grol.io/grol/token"
	"verif/internal/core"
	"verif/internal/obs"
)

// C02 — print then parse gives the same tree.  C03 — formatting is a deterministic fixpoint.

// diffSite names the innermost open node of dump a at the first position where a and b differ.
func diffSite(a, b string) string {
	n := len(a)
	if len(b) < n {
		n = len(b)
	}
	i := 0
	for i < n && a[i] == b[i] {
		i++
	}
	// walk a[:i] keeping a stack of "(" heads, skipping quoted strings
	var stack []string
	inStr := false
	for j := 0; j < i && j < len(a); j++ {
		ch := a[j]
		if inStr {
			if ch == '\\' {
				j++
			} else if ch == '"' {
				inStr = false
			}
			continue
		}
		switch ch {
		case '"':
			inStr = true
		case '(':
			k := j + 1
			for k < len(a) && a[k] != ' ' && a[k] != ')' && a[k] != '(' {
				k++
			}
			head := a[j+1 : k]
			// include the token type (e.g. MINUS) when present
			if k < len(a) && a[k] == ' ' {
				m := k + 1
				for m < len(a) && a[m] != ':' && a[m] != ' ' && a[m] != ')' && a[m] != '(' {
					m++
				}
				if m < len(a) && a[m] == ':' {
					head += " " + a[k+1:m]
				}
			}
			stack = append(stack, head)
		case ')':
			if len(stack) > 0 {
				stack = stack[:len(stack)-1]
			}
		}
	}
	if len(stack) == 0 {
		return "root"
	}
	return stack[len(stack)-1]
}

// leftmost returns the literal of the leftmost token a node prints (harness's own walk of the tree).
func leftmost(n ast.Node) string {
	switch v := n.(type) {
	case *ast.InfixExpression:
		return leftmost(v.Left)
	case *ast.IndexExpression:
		return leftmost(v.Left)
	case *ast.CallExpression:
		return leftmost(v.Function)
	case *ast.PostfixExpression:
		return v.Prev.Literal()
	case *ast.FunctionLiteral:
		if v.IsLambda {
			if len(v.Parameters) == 1 {
				return leftmost(v.Parameters[0])
			}
			return "("
		}
	case *ast.ArrayLiteral:
		return "["
	case *ast.MapLiteral:
		return "{"
	case *ast.StringLiteral:
		return "\""
	}
	if n == nil || n.Value() == nil {
		return ""
	}
	return n.Value().Literal()
}

// hasLeadingOperatorStatement reports whether some block of the tree has a non-first statement that starts
// with an operator that is also binary/postfix (- + ^ ++ --): the one shape whose printed form is pinned by
// the repository's own test suite to lose the statement boundary (known finding C02-K1).
func hasLeadingOperatorStatement(n ast.Node) bool {
	found := false
	var walkStmts func(s *ast.Statements)
	var walk func(n ast.Node)
	walkStmts = func(s *ast.Statements) {
		if s == nil {
			return
		}
		for i, st := range s.Statements {
			if i > 0 {
				switch leftmost(st) {
				case "-", "+", "^", "++", "--":
					found = true
				}
			}
			walk(st)
		}
	}
	walk = func(n ast.Node) {
		if n == nil || found {
			return
		}
		switch v := n.(type) {
		case *ast.Statements:
			walkStmts(v)
		case *ast.InfixExpression:
			walk(v.Left)
			if v.Right != nil {
				walk(v.Right)
			}
		case *ast.PrefixExpression:
			walk(v.Right)
		case *ast.IndexExpression:
			walk(v.Left)
			walk(v.Index)
		case *ast.CallExpression:
			walk(v.Function)
			for _, a := range v.Arguments {
				walk(a)
			}
		case *ast.ArrayLiteral:
			for _, a := range v.Elements {
				walk(a)
			}
		case *ast.MapLiteral:
			for _, k := range v.Order {
				walk(k)
				walk(v.Pairs[k])
			}
		case *ast.Builtin:
			for _, a := range v.Parameters {
				walk(a)
			}
		case *ast.FunctionLiteral:
			walkStmts(v.Body)
		case *ast.MacroLiteral:
			walkStmts(v.Body)
		case *ast.IfExpression:
			walk(v.Condition)
			walkStmts(v.Consequence)
			walkStmts(v.Alternative)
		case *ast.ForExpression:
			walk(v.Condition)
			walkStmts(v.Body)
		case *ast.ReturnStatement:
			if v.ReturnValue != nil {
				walk(v.ReturnValue)
			}
		}
	}
	walk(n)
	return found
}

// hasCommentOperand: a comment in a non-statement position (operand of an operator, index, call...).
func hasCommentOperand(n ast.Node) bool {
	found := false
	var walk func(n ast.Node, stmt bool)
	walkStmts := func(s *ast.Statements) {
		if s == nil {
			return
		}
		for _, st := range s.Statements {
			walk(st, true)
		}
	}
	walk = func(n ast.Node, stmt bool) {
		if n == nil || found {
			return
		}
		switch v := n.(type) {
		case *ast.Comment:
			if !stmt {
				found = true
			}
		case *ast.Statements:
			walkStmts(v)
		case *ast.InfixExpression:
			walk(v.Left, false)
			if v.Right != nil {
				walk(v.Right, false)
			}
		case *ast.PrefixExpression:
			walk(v.Right, false)
		case *ast.IndexExpression:
			walk(v.Left, false)
			walk(v.Index, false)
		case *ast.CallExpression:
			walk(v.Function, false)
			for _, a := range v.Arguments {
				walk(a, false)
			}
		case *ast.ArrayLiteral:
			for _, a := range v.Elements {
				walk(a, false)
			}
		case *ast.MapLiteral:
			for _, k := range v.Order {
				walk(k, false)
				walk(v.Pairs[k], false)
			}
		case *ast.Builtin:
			for _, a := range v.Parameters {
				walk(a, false)
			}
		case *ast.FunctionLiteral:
			walkStmts(v.Body)
		case *ast.MacroLiteral:
			walkStmts(v.Body)
		case *ast.IfExpression:
			walk(v.Condition, false)
			walkStmts(v.Consequence)
			walkStmts(v.Alternative)
		case *ast.ForExpression:
			walk(v.Condition, false)
			walkStmts(v.Body)
		case *ast.ReturnStatement:
			if v.ReturnValue != nil {
				walk(v.ReturnValue, false)
			}
		}
	}
	walk(n, true)
	return found
}

// c02Known maps a failed round trip onto one of the precisely delimited known shapes ("" if none applies).
func c02Known(orig *ast.Statements, reparsed *ast.Statements, opt obs.DumpOpt) string {
	if hasLeadingOperatorStatement(orig) {
		return "stmt-merge-leading-operator"
	}
	if hasCommentOperand(orig) {
		return "comment-operand"
	}
	if reparsed != nil {
		o2 := opt
		o2.FlattenPlus = true
		if obs.DumpAST(orig, o2) == obs.DumpAST(reparsed, o2) {
			return "plus-regroup"
		}
	}
	return ""
}

type fmtModes struct {
	name    string
	compact bool
}

var bothModes = []fmtModes{{"normal", false}, {"compact", true}}

// c02One returns (violation, isCase).
func c02One(text, fam string) (*core.Viol, bool) {
	src := []byte(text)
	r := parseText(src, false)
	if !r.clean() {
		return nil, false
	}
	mk := func(class, detail string) *core.Viol {
		return &core.Viol{Class: class, Detail: detail, Case: core.BytesCase(fam, "", src)}
	}
	for _, m := range bothModes {
		opt := obs.DumpOpt{DropComments: m.compact}
		d0 := obs.DumpAST(r.prog, opt)
		p1, pan := printNode(r.prog, m.compact, false)
		if pan != "" {
			return mk(m.name+":print-"+pan, "printing panicked"), true
		}
		r1 := parseText([]byte(p1), false)
		if r1.panic != "" {
			return mk(m.name+":reparse-"+r1.panic, fmt.Sprintf("printed %q", p1)), true
		}
		if len(r1.errs) > 0 || r1.cont {
			kind := "reparse-error"
			det := fmt.Sprintf("printed %q asks for more input", p1)
			if len(r1.errs) > 0 {
				det = fmt.Sprintf("printed %q is rejected: %s", p1, firstLine(r1.errs[0]))
			} else {
				kind = "reparse-incomplete"
			}
			if k := c02Known(r.prog, nil, opt); k != "" {
				kind = k
			}
			return mk(m.name+":"+kind, det), true
		}
		d1 := obs.DumpAST(r1.prog, opt)
		if d0 != d1 {
			kind := "tree-differs@" + diffSite(d0, d1)
			if k := c02Known(r.prog, r1.prog, opt); k != "" {
				kind = k
			}
			return mk(m.name+":"+kind, fmt.Sprintf("printed %q parses to %s, original %s", p1, d1, d0)), true
		}
	}
	return nil, true
}

func runC02(c *core.Ctx) {
	opt := corpusOptFor(c)
	done, bounds := forEachCorpusText(c, opt, func(fam, text string) bool {
		var isCase bool
		cs := core.BytesCase(fam, "", []byte(text))
		c.Current(cs)
		v := c.Run(func() *core.Viol {
			vv, ic := c02One(text, fam)
			isCase = ic
			return vv
		})
		out := "not-a-case"
		if isCase {
			out = "roundtrip-ok"
		}
		if v != nil {
			out = v.Class
		}
		c.CountNT(fam+": "+trunc(text, 120), out, isCase)
		return true
	})
	_ = done
	if !c.Expired() {
		n := c02EvalOneOptions(c)
		bounds = append(bounds, fmt.Sprintf("repl.EvalOne: %d programs (definitions, calls, macros defined and used in one input or across inputs, comments, multi-statement) x all 32 combinations of ShowParse/DualFormat/Compact/AllParens/FormatOnly: the normalised text it returns (what the REPL stores in its history) parses to the input's tree", n))
	}
	if !c.Expired() && (c.Shard == 0 || c.Of <= 1) {
		// after a second call of the exported token.Init() (the constant tokens are made anew): the printer and the parser
		// still agree on the forms that depend on which token a node holds. Kept last: nothing is evaluated afterwards
		// in this process (the evaluator keeps token pointers of its own).
		token.Init()
		texts := []string{"(1).x", "m.(a + b)", "f()\n(2).y", "a.b.c = 1", "(1.5).x", "a[1].k[2]", "x = -a.b", "(a.b)(c)", "m.k++", "del(m.k)", "a . b", "(99999999999999999999).x", "if a.b { c.d }",
			"quote(unquote(x))", "a ? b", "x => x.y", "-(-a)", "a - -b", "a--b", "!(!a)", "1..2", "1.:2", "a[b:c]", "a[:c]", "{a.b: c.d}", "[a.b, (1).c]", "for a.b { }", "func f(a) { a.b }", "a = b = c.d", "(a = b).c"}
		for _, lit := range corpusLiterals {
			texts = append(texts, lit, "("+lit+").k", "x = "+lit+"\n("+lit+").k")
		}
		n := 0
		for _, text := range texts {
			n++
			cs := core.BytesCase("reinit", "", []byte(text))
			c.Current(cs)
			var isCase bool
			v := c.Run(func() *core.Viol {
				vv, ic := c02One(text, "reinit")
				isCase = ic
				return vv
			})
			out := "not-a-case"
			if isCase {
				out = "roundtrip-ok"
			}
			if v != nil {
				out = v.Class
			}
			c.CountNT("reinit: "+trunc(text, 120), out, isCase)
		}
		bounds = append(bounds, fmt.Sprintf("after a second token.Init(): %d texts (dot / index / prefix forms, every literal spelling alone and as the base of a dot index)", n))
	}
	c.P.Bound = strings.Join(bounds, "; ") + "; normal and compact mode"
}

// c02EvalOneOptions: the text repl.EvalOne hands back for the history must be the input's program.
var c02HistPrograms = [][]string{
	{"a = 1 + 2 * 3"}, {"func f(x) { x + 1 }", "f(2)"}, {"x = [1, 2, 3]; y = {\"k\": x}", "println(y.k[0])"},
	{"double = macro(x) { quote(unquote(x) * 2) }\ndouble(20 + 1)"}, {"double = macro(x) { quote(unquote(x) * 2) }", "double(20 + 1)", "z = double(3) + double(4)"},
	{"m1 = macro(a, b) { quote(unquote(a) - unquote(b)) }; m1(5, 2 - 1)"}, {"if 1 < 2 { \"yes\" } else { \"no\" }"}, {"for i = 3 { println(i) }"},
	{"f = x => x * 2; f(4) // comment"}, {"/* c */ a = 5\nb = a - (2 - 1)"}, {"s = \"a\\nb\"; len(s)"}, {"func g(a, ..) { len(..) }", "g(1, 2, 3)"},
	{"q = quote(1 + 2)", "q"}, {"unless = macro(c, b) { quote(if !(unquote(c)) { unquote(b) }) }", "unless(1 > 2, println(\"ok\"))"},
}

func c02EvalOneOptions(c *core.Ctx) int {
	n := 0
	for pi, prog := range c02HistPrograms {
		for mask := 0; mask < 32; mask++ {
			key := fmt.Sprintf("evalone|%d|%d", pi, mask)
			if !c.MineNoDedup("evalone", key) {
				continue
			}
			n++
			opts := repl.Options{All: true, ShowEval: true, NoColor: true, ShowParse: mask&1 != 0, DualFormat: mask&2 != 0, Compact: mask&4 != 0, AllParens: mask&8 != 0, FormatOnly: mask&16 != 0}
			cs := core.Case{Kind: "evalone", Cfg: fmt.Sprint(mask), Data: strings.Join(prog, " ;; ")}
			v := c.Run(func() *core.Viol {
				s := eval.NewState()
				var out strings.Builder
				s.Out, s.LogOut, s.NoLog = &out, &out, true
				for _, in := range prog {
					_, _, errs, formatted := repl.EvalOne(context.Background(), s, in, &out, opts)
					if len(errs) > 0 {
						// every program of this family is valid and error-free
						return &core.Viol{Class: "evalone-unexpected-error", Detail: fmt.Sprintf("options %+v: input %q: %v", opts, in, errs), Case: cs}
					}
					want := parseText([]byte(in), false)
					got := parseText([]byte(formatted), false)
					if !want.clean() {
						return nil
					}
					opt := obs.DumpOpt{DropComments: opts.Compact || opts.DualFormat}
					if !got.clean() || obs.DumpAST(got.prog, opt) != obs.DumpAST(want.prog, opt) {
						if got.clean() && c02Known(want.prog, got.prog, opt) != "" {
							continue
						}
						return &core.Viol{Class: "evalone-returned-text-differs", Detail: fmt.Sprintf("options %+v: input %q came back as %q (%v)", opts, in, formatted, got.errs), Case: cs}
					}
				}
				return nil
			})
			o := "history-text-ok"
			if v != nil {
				o = v.Class
			}
			c.CountNT(key, o, true)
		}
	}
	return len(c02HistPrograms)
}

// ---------------------------------------------------------------------------------

func c03One(text, fam string) (*core.Viol, bool) {
	src := []byte(text)
	r := parseText(src, false)
	if !r.clean() {
		return nil, false
	}
	_ = corpusMustAccept // (rejection of a valid text is C15's / C08's business)
	mk := func(class, detail string) *core.Viol {
		return &core.Viol{Class: class, Detail: detail, Case: core.BytesCase(fam, "", src)}
	}
	for _, m := range bothModes {
		p1, pan := printNode(r.prog, m.compact, false)
		if pan != "" {
			return mk(m.name+":print-"+pan, "printing panicked"), true
		}
		// same tree printed again gives the same bytes (more repetitions for map literals: Go map iteration order
		// is random per range statement, a printer that ranged over a Go map would only differ now and then)
		reps := 2
		if strings.Contains(text, "{") && strings.Contains(text, ":") {
			reps = 9
		}
		for k := 0; k < reps; k++ {
			if again, _ := printNode(r.prog, m.compact, false); again != p1 {
				return mk(m.name+":print-not-deterministic", fmt.Sprintf("%q then %q", p1, again)), true
			}
		}
		if rr := parseText(src, false); rr.clean() {
			if again, _ := printNode(rr.prog, m.compact, false); again != p1 {
				return mk(m.name+":print-not-deterministic", fmt.Sprintf("the same text parsed again prints %q, first %q", again, p1)), true
			}
		}
		if !m.compact {
			if !strings.HasSuffix(p1, "\n") || strings.HasSuffix(p1, "\n\n") {
				return mk("normal:trailing-newline", fmt.Sprintf("normal-mode output %q does not end with exactly one newline", p1)), true
			}
		}
		r1 := parseText([]byte(p1), false)
		known := c02Known(r.prog, nil, obs.DumpOpt{})
		if known == "plus-regroup" {
			known = ""
		}
		if !r1.clean() {
			e := "incomplete"
			if len(r1.errs) > 0 {
				e = firstLine(r1.errs[0])
			}
			kind := "formatted-text-rejected"
			if known != "" {
				kind = known
			}
			return mk(m.name+":"+kind, fmt.Sprintf("formatted text %q cannot be formatted again: %s %s", p1, r1.panic, e)), true
		}
		p2, pan := printNode(r1.prog, m.compact, false)
		if pan != "" {
			return mk(m.name+":print2-"+pan, "printing panicked"), true
		}
		if p2 != p1 {
			kind := "not-fixpoint"
			if known != "" {
				kind = known
			}
			return mk(m.name+":"+kind, fmt.Sprintf("first pass %q second pass %q", p1, p2)), true
		}
	}
	return nil, true
}

// interning histories: order independence of formatting w.r.t. what was parsed before in the process
var c03HistInputs = []string{"a", `"a"`, "`a`", "// a", "/* a */", "1", `"1"`, "0x1", "if", `"if"`, "a = 1 // a\nb", "x /* a */ y",
	"1_000", "1000", "1.5", "1.50", "01", "x = 7_654_321", "7654321", `"a\n"`, "`a\n`", "0b1", "1e3", "1E3"}

func c03Format(text string) string {
	r := parseText([]byte(text), false)
	if r.prog == nil {
		return "<nil>"
	}
	n, _ := printNode(r.prog, false, false)
	k, _ := printNode(r.prog, true, false)
	return fmt.Sprintf("%v|%v|%q|%q", r.errs, r.cont, n, k)
}

func c03Histories(c *core.Ctx) int {
	golden := make([]string, len(c03HistInputs))
	for i, in := range c03HistInputs {
		token.Init()
		golden[i] = c03Format(in)
	}
	n := 0
	var rec func(hist []int, used int)
	rec = func(hist []int, used int) {
		if len(hist) > 0 {
			key := fmt.Sprint(hist)
			if c.MineNoDedup("hist", key) {
				n++
				cs := core.Case{Kind: "hist", Data: strings.Trim(strings.ReplaceAll(key, " ", ","), "[]")}
				v := c.Run(func() *core.Viol {
					token.Init()
					for _, h := range hist {
						if got := c03Format(c03HistInputs[h]); got != golden[h] {
							return &core.Viol{Class: "history-dependent-format", Detail: fmt.Sprintf("input %q formatted as %s after history %v, %s when first", c03HistInputs[h], got, hist, golden[h]), Case: cs}
						}
					}
					return nil
				})
				out := "hist-ok"
				if v != nil {
					out = v.Class
				}
				c.CountNT("hist: "+key, out, true)
				c.P.Traces++
			}
		}
		if len(hist) == 4 {
			return
		}
		for i := range c03HistInputs {
			if used&(1<<i) == 0 {
				rec(append(append([]int{}, hist...), i), used|1<<i)
			}
		}
	}
	rec(nil, 0)
	return n
}

// long literals: two texts holding a literal of the same kind and length (> 256 bytes) that differ in exactly one
// byte, at every position, formatted one after the other in one process (an interning table keyed by less than the
// whole literal would hand the second one the first one's token)
func c03LongLiterals(c *core.Ctx) int {
	kinds := []struct {
		name       string
		open, clos string
	}{{"string", `x = "`, "\"\n"}, {"blockcomment", "/* ", " */\n"}, {"linecomment", "// ", "\n"}, {"ident", "", "\n"}, {"rawstring", "x = `", "`\n"}}
	n := 0
	for _, k := range kinds {
		for _, L := range []int{257, 300} {
			for pos := 0; pos < L; pos++ {
				key := fmt.Sprintf("longlit|%s|%d|%d", k.name, L, pos)
				if !c.MineNoDedup("longlit", key) {
					continue
				}
				n++
				body := []byte(strings.Repeat("a", L))
				a := k.open + string(body) + k.clos
				body[pos] = 'b'
				b := k.open + string(body) + k.clos
				cs := core.Case{Kind: "longlit", Cfg: k.name, Data: fmt.Sprintf("%d bytes, differing at %d", L, pos)}
				v := c.Run(func() *core.Viol {
					token.Init()
					gb := c03Format(b)
					token.Init()
					ga := c03Format(a)
					for i, step := range []string{b, a, b} {
						want := gb
						if step == a {
							want = ga
						}
						if got := c03Format(step); got != want {
							return &core.Viol{Class: "history-dependent-format", Detail: fmt.Sprintf("%s literal of %d bytes: step %d formatted as %s, %s in a fresh process state (the other text differs at byte %d only)", k.name, L, i, trunc(got, 700), trunc(want, 700), pos), Case: cs}
						}
					}
					if !strings.Contains(gb, "b") {
						return &core.Viol{Class: "HARNESS-longlit", Detail: gb, Case: cs}
					}
					return nil
				})
				o := "hist-ok"
				if v != nil {
					o = v.Class
				}
				c.CountNT(key, o, true)
				c.P.Traces++
			}
		}
	}
	return n
}

// inputs the process rejects (too deep, syntax errors, incomplete, illegal bytes): what comes after them formats as in a
// fresh process
var c03Rejected = []string{strings.Repeat("(", 10001) + "1" + strings.Repeat(")", 10001), "1" + strings.Repeat("+1", 100001), "a" + strings.Repeat("[0]", 100001),
	strings.Repeat("if a {", 10001) + strings.Repeat("}", 10001), "(", "1 +", "\"abc", "/* open", "@", "a b c )", "x = = 1", "func f(a, a) {}", "{1:}", "if {", "\x00", "0x"}

func c03AfterRejected(c *core.Ctx) int {
	valid := append(append([]string{}, c03HistInputs...), "x = 1\n", "func f(a) { a + 1 }", "m = macro(x) { quote(unquote(x)) }; m(1)", "if a { 1 } else { 2 }", "[1, 2, {3: 4}]")
	golden := make([]string, len(valid))
	for i, in := range valid {
		token.Init()
		golden[i] = c03Format(in)
	}
	n := 0
	for i, e1 := range c03Rejected {
		for j, e2 := range c03Rejected {
			key := fmt.Sprintf("afterrejected|%d|%d", i, j)
			if !c.MineNoDedup("afterrejected", key) {
				continue
			}
			n++
			cs := core.Case{Kind: "afterrejected", Data: fmt.Sprintf("%d,%d", i, j)}
			v := c.Run(func() *core.Viol {
				token.Init()
				_ = c03Format(e1)
				if i != j {
					_ = c03Format(e2)
				}
				for k, in := range valid {
					if got := c03Format(in); got != golden[k] {
						return &core.Viol{Class: "history-dependent-format", Detail: fmt.Sprintf("input %q formatted as %s after the rejected inputs %q and %q, %s in a fresh process state", in, got, trunc(e1, 40), trunc(e2, 40), golden[k]), Case: cs}
					}
				}
				return nil
			})
			o := "hist-ok"
			if v != nil {
				o = v.Class
			}
			c.CountNT(key, o, true)
			c.P.Traces++
		}
	}
	return n
}

// histories through the real entry point: repl.EvalOne formatting (FormatOnly, normal and compact) and evaluating the
// same and other texts in one process, in every order
var c03EntryTexts = []string{"m = macro(x) { quote(unquote(x) + 1) }\nm(2)\n", "func f(a) {\n\ta + 1\n}\nf(1)\n", "x = [1, 2, 3]\nx[1] // c\n", "a = 1\nb = macro(y) { quote(unquote(y)) }\nb(a)\n", "if true {\n\t1\n} else {\n\t2\n}\n", "unless = macro(c, a, b) { quote(if !(unquote(c)) { unquote(a) } else { unquote(b) }) }\nunless(false, 1, 2)\n"}

func c03EntryPointHistories(c *core.Ctx) int {
	type act struct {
		op   int // 0 format normal, 1 format compact, 2 run
		text int
	}
	var acts []act
	for op := 0; op < 3; op++ {
		for t := range c03EntryTexts {
			acts = append(acts, act{op, t})
		}
	}
	do := func(a act) (string, []string) {
		s := eval.NewState()
		var out strings.Builder
		s.Out, s.LogOut, s.NoLog = &out, &out, true
		opts := repl.Options{All: true, ShowEval: true, NoColor: true, FormatOnly: a.op < 2, Compact: a.op == 1}
		_, _, errs, _ := repl.EvalOne(context.Background(), s, c03EntryTexts[a.text], &out, opts)
		return out.String(), errs
	}
	// what each action gives when it is the first thing the process does with that text (formats also against the
	// parser + printer used directly)
	golden := map[act]string{}
	for _, a := range acts {
		o, errs := do(a)
		golden[a] = fmt.Sprintf("%q %v", o, errs)
	}
	depth := 3
	n := 0
	var rec func(h []act)
	rec = func(h []act) {
		if len(h) > 0 {
			key := fmt.Sprintf("entry|%v", h)
			if c.MineNoDedup("entry", key) {
				n++
				cs := core.Case{Kind: "entry", Data: strings.Trim(fmt.Sprint(h), "[]")}
				v := c.Run(func() *core.Viol {
					for i, a := range h {
						o, errs := do(a)
						if got := fmt.Sprintf("%q %v", o, errs); got != golden[a] {
							return &core.Viol{Class: "history-dependent-format", Detail: fmt.Sprintf("step %d of %v (op 0 format, 1 compact format, 2 run; text %q): got %s, alone %s", i, h, c03EntryTexts[a.text], got, golden[a]), Case: cs}
						}
					}
					return nil
				})
				o := "hist-ok"
				if v != nil {
					o = v.Class
				}
				c.CountNT(key, o, true)
				c.P.Traces++
			}
		}
		if len(h) == depth {
			return
		}
		for _, a := range acts {
			rec(append(append([]act{}, h...), a))
		}
	}
	rec(nil)
	// what the entry point formats is a fixpoint of the entry point
	if c.Shard == 0 || c.Of <= 1 {
		for t := range c03EntryTexts {
			for _, compact := range []bool{false, true} {
				fm := func(text string) string {
					s := eval.NewState()
					var out strings.Builder
					s.Out, s.LogOut, s.NoLog = &out, &out, true
					_, _, _, _ = repl.EvalOne(context.Background(), s, text, &out, repl.Options{All: true, ShowEval: true, NoColor: true, FormatOnly: true, Compact: compact})
					return out.String()
				}
				f1 := fm(c03EntryTexts[t])
				if f2 := fm(f1); f2 != f1 || f1 == "" {
					c.Report(&core.Viol{Class: "entry:not-fixpoint", Detail: fmt.Sprintf("%q formatted through repl.EvalOne (compact %v) as %q, and that as %q", c03EntryTexts[t], compact, f1, f2), Case: core.Case{Kind: "entry", Data: fmt.Sprint(t, compact)}})
				}
			}
		}
	}
	return n
}

func runC03(c *core.Ctx) {
	token.Init()
	opt := corpusOptFor(c)
	_, bounds := forEachCorpusText(c, opt, func(fam, text string) bool {
		var isCase bool
		cs := core.BytesCase(fam, "", []byte(text))
		c.Current(cs)
		v := c.Run(func() *core.Viol {
			vv, ic := c03One(text, fam)
			isCase = ic
			return vv
		})
		out := "not-a-case"
		if isCase {
			out = "fixpoint-ok"
		}
		if v != nil {
			out = v.Class
		}
		c.CountNT(fam+": "+trunc(text, 120), out, isCase)
		return true
	})
	if !c.Expired() {
		c03Histories(c)
		// a long history: ~1.6 million distinct tokens interned in this process, then the same inputs again
		if c.Shard == 0 || c.Of <= 1 {
			cs := core.Case{Kind: "after-dictionary", Data: "formats after 1.6M interned tokens"}
			c.Current(cs)
			v := c.Run(func() *core.Viol {
				probes := append(append([]string{}, c03HistInputs...), "liquid = 2", "costarring = 1", "zzzz = aaaa + qjjjjjj", "abcd", "qabcdef = \"qfedcba\" /*dcba*/")
				token.Init()
				golden := make([]string, len(probes))
				for i, in := range probes {
					golden[i] = c03Format(in)
				}
				c16Dictionary(c, "C03") // (its own verdict is reported separately; here it is the history)
				for i, in := range probes {
					if got := c03Format(in); got != golden[i] {
						return &core.Viol{Class: "history-dependent-format", Detail: fmt.Sprintf("input %q formatted as %s after 1.6M other tokens were seen, %s in a fresh process state", in, got, golden[i]), Case: cs}
					}
				}
				return nil
			})
			out := "hist-ok"
			if v != nil {
				out = v.Class
			}
			c.CountNT("after-dictionary", out, true)
		}
		nl := c03LongLiterals(c)
		nr := c03AfterRejected(c)
		ne := c03EntryPointHistories(c)
		bounds = append(bounds, fmt.Sprintf("long literals: 5 kinds x lengths 257, 300 x every position of a single differing byte, both texts formatted alternately in one process (%d pairs); every ordered pair of %d rejected inputs (nested / chained beyond the parser limits, syntax errors, incomplete, illegal bytes) followed by 29 valid inputs (%d); entry point: every sequence of <=3 actions {format, compact format, run} x %d canonical scripts (macros, functions, comments) through repl.EvalOne, each result compared with the action done alone (%d)", nl, len(c03Rejected), nr, len(c03EntryTexts), ne))
		bounds = append(bounds, fmt.Sprintf("interning histories: every permutation of every subset of <=4 of %d inputs, each formatted after each prefix and compared with the fresh-process-state result", len(c03HistInputs)))
	}
	c.P.Bound = strings.Join(bounds, "; ") + "; normal and compact mode"
}

func init() {
	core.Register(&core.Check{
		ID:          "C02",
		Level:       "exploration",
		Rule:        "source texts enumerated exhaustively (G-syn trees by size in two renderings, statement lists, statement adjacency pairs/triples with each separator, all literal spellings and single-byte string contents, comments at every statement boundary, shipped programs and their single-byte mutations); a text is a case iff the parser accepts it without error/continuation. Oracle: canonical dump of parse(t) equals canonical dump of parse(print(parse(t))) in normal mode (with comments) and compact mode (comments dropped from both), and the printed text parses without error. Also: all operator triples in 8 groupings of four operands and quadruples of representative operators in the 14 groupings of five, every token kind in parameter position, ten block/expression forms nested up to 1000 deep, and the normalised text repl.EvalOne returns (REPL history) under all 32 combinations of its formatting options for programs with functions, comments and macros. Non-trivial = accepted by the parser; distinct by text. Also: strings holding code points at every boundary of the printer's escape forms, raw and escaped; a round trip of dot / index / prefix forms and every literal after a second call of the exported token.Init().",
		Assume:      []string{"canonical tree dump of internal/obs (numbers by value, everything else by token type+literal)"},
		QuickCap:    100 * time.Second,
		ThoroughCap: 20 * time.Minute,
		HangLimit:   240 * time.Second,
		Run:         runC02,
		Replay: func(c *core.Ctx, cs core.Case) *core.Viol {
			v, _ := c02One(string(cs.Bytes()), cs.Kind)
			return v
		},
	})
	core.Register(&core.Check{
		ID:          "C03",
		Level:       "exploration",
		Rule:        "same corpus as C02; oracle: print(parse(print(parse(t)))) == print(parse(t)) byte for byte in normal and compact mode, printing the same tree three times gives the same bytes, normal-mode output ends with exactly one newline; plus interning histories: every permutation of every subset of <=4 of 12 inputs whose literals collide across token types, each input formatted after each prefix of the history and compared with formatting it first after token.Init(). Non-trivial = accepted by the parser; distinct by text. Histories: pairs of >256-byte literals differing in one byte at every position; every ordered pair of rejected inputs (too deep, syntax errors, incomplete, illegal bytes) before valid ones; every sequence of <=3 {format, compact format, run} actions through repl.EvalOne over canonical scripts with macros: each result equals the action done first in a process.",
		Assume:      []string{"Go map iteration order is not ownable: the printer ranges over no map (MapLiteral.Order is a slice); repetition (3 prints) is the only evidence for that sub-clause"},
		QuickCap:    100 * time.Second,
		ThoroughCap: 20 * time.Minute,
		HangLimit:   240 * time.Second,
		Run:         runC03,
		Replay: func(c *core.Ctx, cs core.Case) *core.Viol {
			if cs.Kind == "hist" {
				token.Init()
				golden := map[int]string{}
				hist := parseInts(cs.Data)
				for _, h := range hist {
					token.Init()
					golden[h] = c03Format(c03HistInputs[h])
				}
				token.Init()
				for _, h := range hist {
					if got := c03Format(c03HistInputs[h]); got != golden[h] {
						return &core.Viol{Class: "history-dependent-format", Detail: got + " vs " + golden[h], Case: cs}
					}
				}
				return nil
			}
			v, _ := c03One(string(cs.Bytes()), cs.Kind)
			return v
		},
	})
}
