package checks

import (
	"bufio"
	"crypto/sha1"
	"encoding/hex"
	"encoding/json"
	"fmt"
	"io"
	"os"
	"os/exec"
	"path/filepath"
	"regexp"
	"sort"
	"strings"
	"time"

	"verif/internal/core"
	"verif/internal/ref"
)

// C17 — restricted IO confines file access to plain .gr names in the current directory.
//
// The extension tables (and the IO flags) are process globals initialised once, so every IO configuration
// runs in its own child process (`vcheck C17-child`), in its own scratch tree, with the configuration chosen by
// VERIF_IOCFG. A second layer runs the same child under strace and checks every path-taking syscall.

var c17Alphabet = []string{"a", "Z", "0", "_", "g", "r", ".", "/", "\\", "\x00", " ", "~", "\xff"}

// reference verdict: which file (relative to cwd) a name designates, or "" if it must be rejected.
func c17Target(cfg, name string) string {
	switch cfg {
	case "emptyonly":
		if name == "" {
			return ".gr"
		}
		return ""
	case "disabled":
		return ""
	}
	base := strings.TrimSuffix(name, ".gr")
	for i := 0; i < len(base); i++ {
		b := base[i]
		if !(b == '_' || (b >= '0' && b <= '9') || (b >= 'a' && b <= 'z') || (b >= 'A' && b <= 'Z')) {
			return ""
		}
	}
	return base + ".gr"
}

var c17SentinelFiles = map[string]string{ // path relative to the scratch root -> sentinel binding
	"outer.gr":         "SENT_OUTER",
	"a":                "SENT_ROOT_A_NOEXT",
	"a.gr":             "SENT_ROOT_A",
	"dir/a.gr":         "SENT_PARENT_A",
	"dir/a":            "SENT_PARENT_A_NOEXT",
	"dir/Z.gr":         "SENT_PARENT_Z",
	"dir/.gr":          "SENT_PARENT_EMPTY",
	"dir/cwd/a/a.gr":   "SENT_SUB_A",
	"dir/cwd/a/.gr":    "SENT_SUB_EMPTY",
	"dir/cwd/g/r.gr":   "SENT_SUB_GR",
	"dir/cwd/plain":    "SENT_CWD_PLAIN_NOEXT",
	"dir/cwd/a.txt":    "SENT_CWD_TXT",
	"dir/cwd/..gr":     "SENT_CWD_DOTDOTGR",
	"dir/cwd/a.gr.bak": "SENT_CWD_BAK",
	// directories whose names are long runs of letters (a check that only looks at a prefix of the name)
	"dir/cwd/" + c17Long63 + "/x.gr":  "SENT_LONG63",
	"dir/cwd/" + c17Long64 + "/x.gr":  "SENT_LONG64",
	"dir/cwd/" + c17Long300 + "/x.gr": "SENT_LONG200",
	"dir/cwd/\u0141/x.gr":             "SENT_LSTROKE",
}

var (
	c17Long63  = strings.Repeat("a", 63)
	c17Long64  = strings.Repeat("a", 64)
	c17Long300 = strings.Repeat("b", 200)
)

func c17BuildTree() (root string, err error) {
	root, err = os.MkdirTemp("", "c17-")
	if err != nil {
		return "", err
	}
	for rel, sent := range c17SentinelFiles {
		p := filepath.Join(root, rel)
		if err = os.MkdirAll(filepath.Dir(p), 0o755); err != nil {
			return
		}
		if err = os.WriteFile(p, []byte(sent+" = 1\n"), 0o644); err != nil {
			return
		}
	}
	err = os.MkdirAll(filepath.Join(root, "dir", "cwd"), 0o755)
	return
}

type c17Snap map[string]string

func c17Snapshot(root string) c17Snap {
	out := c17Snap{}
	_ = filepath.Walk(root, func(p string, info os.FileInfo, err error) error {
		if err != nil {
			return nil
		}
		rel, _ := filepath.Rel(root, p)
		if info.IsDir() {
			out[rel+"/"] = "dir"
			return nil
		}
		b, _ := os.ReadFile(p)
		h := sha1.Sum(b)
		out[rel] = fmt.Sprintf("%d:%s", len(b), hex.EncodeToString(h[:6]))
		return nil
	})
	return out
}

func c17Diff(a, b c17Snap) []string {
	var out []string
	for k, v := range b {
		if a[k] != v {
			out = append(out, k)
		}
	}
	for k := range a {
		if _, ok := b[k]; !ok {
			out = append(out, "-"+k)
		}
	}
	sort.Strings(out)
	return out
}

type c17ChildOut struct {
	Part core.Part `json:"part"`
}

func c17Names(maxLen int) []string {
	var out []string
	enumTuples(len(c17Alphabet), maxLen, func(idx []int) bool {
		var sb strings.Builder
		for _, x := range idx {
			sb.WriteString(c17Alphabet[x])
		}
		out = append(out, sb.String(), sb.String()+".gr")
		return true
	})
	// beyond the enumeration: multi-byte characters whose code point modulo 256 is a letter or digit, and names longer
	// than any fixed-size buffer, alone and followed by path syntax
	for _, m := range []string{"\u0141", "a\u0141", "\u0141a", "\u0130", "\u0261", "\u0141\u0141", "\u00e9", "\u0141/x", "\U00010141", "a\u2030b", "\uff41"} {
		out = append(out, m, m+".gr")
	}
	for _, n := range []int{63, 64, 65, 127, 128, 129, 200, 255, 256, 257, 1000, 4096, 5000} {
		base := strings.Repeat("a", n)
		if n == 200 { // (the directory that exists is 200 long: file names are limited to 255 bytes)
			base = c17Long300
		}
		for _, suf := range []string{"", "/", "/x", "/..", "/../../outer", "/../a", ".", "..", "\x00", " ", "/.gr", "~", ".gr.gr", "/x.gr"} {
			out = append(out, base+suf)
			if suf != "" && !strings.HasSuffix(suf, ".gr") {
				out = append(out, base+suf+".gr")
			}
		}
	}
	return out
}

// c17Child is the child-process role: args = cfg, shard "i/n", maxLen, mode ("snap" or "trace"), order ("fwd"|"rev")
func c17Child(args []string) int {
	if len(args) < 5 {
		return 2
	}
	cfg, mode, order := args[0], args[3], args[4]
	var shard, of, maxLen int
	fmt.Sscanf(args[1], "%d/%d", &shard, &of)
	fmt.Sscan(args[2], &maxLen)
	c := core.NewCtx("C17", "quick", shard, of)
	root, err := c17BuildTree()
	if err != nil {
		fmt.Fprintln(os.Stderr, err)
		return 2
	}
	defer os.RemoveAll(root)
	cwd := filepath.Join(root, "dir", "cwd")
	if err := os.Chdir(cwd); err != nil {
		return 2
	}
	names := c17Names(maxLen)
	if strings.HasPrefix(args[2], "hex:") { // replay of one name
		b, _ := hex.DecodeString(strings.TrimPrefix(args[2], "hex:"))
		names = []string{string(b)}
	}
	if order == "rev" {
		for i, j := 0, len(names)-1; i < j; i, j = i+1, j-1 {
			names[i], names[j] = names[j], names[i]
		}
	}
	if mode == "trace" {
		// start marker for the syscall trace: everything after this stat belongs to the explored calls
		_, _ = os.Stat("/verif-c17-start-marker")
	}
	x := newSess(sessCfg{})
	x.step("MARK = 12345")
	prev := c17Snap{}
	if mode == "snap" {
		prev = c17Snapshot(root)
	}
	report := func(class, detail, name string) {
		c.Report(&core.Viol{Class: cfg + ":" + class, Detail: detail, Case: core.BytesCase("name", cfg, []byte(name)), FindText: name})
	}
	// process-execution functions must not exist when IO is restricted
	if cfg != "unrestricted" {
		for _, fn := range []string{"exec", "run"} {
			if r := x.step(fn); len(r.errs) == 0 {
				report("exec-exists", fn+" is bound: "+r.out, fn)
			}
		}
	}
	if cfg == "disabled" {
		for _, fn := range []string{"save", "load"} {
			if r := x.step(fn); len(r.errs) == 0 {
				report("loadsave-exists", fn+" is bound although load/save are disabled", fn)
			}
		}
	}
	for _, name := range names {
		if !c.MineNoDedup("name-"+cfg, name) {
			continue
		}
		lit := ref.SourceString(name)
		target := c17Target(cfg, name)
		outcome := "rejected"
		ops := []string{"load", "save"}
		if len(name) <= 2 || strings.HasSuffix(name, "l.png") {
			ops = append(ops, "image") // image.save ignores the name for the file: a small set suffices
		}
		for _, op := range ops {
			// a fresh session for load so that sentinels of earlier loads do not linger
			y := x
			if op == "load" {
				y = newSess(sessCfg{})
			}
			var r stepRec
			switch op {
			case "load":
				r = y.step("load(" + lit + ")")
			case "save":
				r = y.step("save(" + lit + ")")
			case "image":
				r = y.step("image.new(" + lit + ", 1, 1); image.save(" + lit + ")")
			}
			failed := len(r.errs) > 0 || r.panicked
			if r.panicked {
				report("panic", op+"("+fmt.Sprintf("%q", name)+"): "+r.String(), name)
			}
			if op == "load" {
				// no sentinel binding from outside the allowed set may be defined
				for rel, sent := range c17SentinelFiles {
					allowed := target != "" && rel == "dir/cwd/"+target
					if v := y.step("catch(" + sent + ").err"); strings.TrimSpace(v.out) == "false" && !allowed {
						report("read-outside", fmt.Sprintf("load(%q) evaluated %s (binding %s is defined)", name, rel, sent), name)
					}
				}
				if target == "" && !failed && cfg != "disabled" {
					report("load-accepts-bad-name", fmt.Sprintf("load(%q) did not fail: %s", name, r), name)
				}
				continue
			}
			if mode != "snap" {
				continue
			}
			now := c17Snapshot(root)
			diff := c17Diff(prev, now)
			prev = now
			switch op {
			case "save":
				if target != "" && !failed {
					outcome = "accepted"
				}
				if failed && len(diff) > 0 {
					report("rejected-request-has-effect", fmt.Sprintf("save(%q) returned an error but changed %v", name, diff), name)
				}
				for _, d := range diff {
					if target == "" || d != "dir/cwd/"+target {
						report("write-outside", fmt.Sprintf("save(%q) changed %s (allowed: %q)", name, d, target), name)
					}
				}
				if target != "" && failed && len(target) <= 255 { // (longer plain names are refused by the file system itself)
					report("save-rejects-plain-name", fmt.Sprintf("save(%q) failed: %v", name, r.errs), name)
				}
				if target == "" && !failed && cfg != "disabled" {
					report("save-accepts-bad-name", fmt.Sprintf("save(%q) did not fail", name), name)
				}
			case "image":
				for _, d := range diff {
					if d != "dir/cwd/grol.png" {
						report("image-write-outside", fmt.Sprintf("image.save(%q) changed %s", name, d), name)
					}
				}
			}
		}
		c.CountNT(fmt.Sprintf("%s %q", cfg, name), cfg+":"+outcome, true)
	}
	if mode == "trace" {
		_, _ = os.Stat("/verif-c17-end-marker") // what follows (cleanup of the scratch tree) is the harness's own
	}
	b, _ := json.Marshal(c17ChildOut{Part: c.P})
	fmt.Println("C17CHILD " + string(b))
	return 0
}

var c17SysRe = regexp.MustCompile(`^\d+\s+(\w+)\((.*)$`)

// c17CheckTrace parses an strace -f log and reports path-taking syscalls after the start marker that touch
// anything outside cwd / the allowed names. Returns violations as (class, detail).
func c17CheckTrace(cfg, logPath, cwd string) (viol [][2]string, calls int) {
	f, err := os.Open(logPath)
	if err != nil {
		return [][2]string{{"trace-missing", err.Error()}}, 0
	}
	defer f.Close()
	started := false
	allowedName := regexp.MustCompile(`^[A-Za-z0-9_]*\.gr$`)
	sc := bufio.NewScanner(f)
	sc.Buffer(make([]byte, 1<<20), 1<<20)
	quoted := regexp.MustCompile(`"((?:[^"\\]|\\.)*)"`)
	// a call interrupted by another thread's call is written in two parts ("<unfinished ...>" / "<... name resumed>"):
	// they are joined again per pid before the line is looked at
	pending := map[string]string{}
	resumed := regexp.MustCompile(`^(\d+)\s+<\.\.\. \w+ resumed>(.*)$`)
	for sc.Scan() {
		line := sc.Text()
		if i := strings.Index(line, " <unfinished ...>"); i >= 0 {
			if f := strings.Fields(line); len(f) > 0 {
				pending[f[0]] = line[:i]
			}
			continue
		}
		if m := resumed.FindStringSubmatch(line); m != nil {
			if head, ok := pending[m[1]]; ok {
				delete(pending, m[1])
				line = head + m[2]
			}
		}
		if strings.Contains(line, "verif-c17-start-marker") {
			started = true
			continue
		}
		if !started {
			continue
		}
		if strings.Contains(line, "verif-c17-end-marker") {
			break
		}
		if strings.Contains(line, "ENAMETOOLONG") {
			continue // the kernel refused the path before looking at it (strace shows only its first PATH_MAX bytes)
		}
		m := c17SysRe.FindStringSubmatch(line)
		if m == nil {
			continue
		}
		sys, rest := m[1], m[2]
		paths := quoted.FindAllStringSubmatch(rest, -1)
		if len(paths) == 0 {
			continue
		}
		writes := false
		switch sys {
		case "open", "openat", "creat":
			writes = strings.Contains(rest, "O_WRONLY") || strings.Contains(rest, "O_RDWR") || strings.Contains(rest, "O_CREAT") || strings.Contains(rest, "O_TRUNC") || sys == "creat"
		case "rename", "renameat", "renameat2", "unlink", "unlinkat", "mkdir", "mkdirat", "rmdir", "link", "linkat", "symlink", "symlinkat", "truncate", "chmod", "fchmodat", "chown", "mknod", "mknodat":
			writes = true
		case "stat", "lstat", "newfstatat", "statx", "access", "faccessat", "faccessat2", "readlink", "readlinkat", "getcwd", "chdir", "execve":
			continue
		default:
			continue
		}
		calls++
		for _, pm := range paths {
			p, err := strconvUnquoteStrace(pm[1])
			if err != nil {
				p = pm[1]
			}
			abs := p
			if !filepath.IsAbs(p) {
				abs = filepath.Join(cwd, p)
			}
			abs = filepath.Clean(abs)
			// harness / runtime reads that are not part of the property
			if !writes && (strings.HasPrefix(abs, "/proc/") || strings.HasPrefix(abs, "/sys/") || strings.HasPrefix(abs, "/etc/") || strings.HasPrefix(abs, "/usr/") || strings.HasPrefix(abs, "/dev/") || strings.HasPrefix(abs, "/lib")) {
				continue
			}
			dir, base := filepath.Dir(abs), filepath.Base(abs)
			ok := dir == cwd && (allowedName.MatchString(base) || (base == "grol.png" && sys != "rename"))
			if cfg == "emptyonly" && ok && base != ".gr" && base != "grol.png" {
				ok = false
			}
			if strings.ContainsRune(p, 0) {
				ok = false
			}
			if !ok {
				kind := "read"
				if writes {
					kind = "write"
				}
				short := p
				if len(short) > 120 {
					short = fmt.Sprintf("%s…(%d bytes)…%s", p[:40], len(p), p[len(p)-60:])
				}
				viol = append(viol, [2]string{"syscall-" + kind + "-outside", fmt.Sprintf("%s(%q, %s", sys, short, trunc(rest[strings.LastIndex(rest, "\"")+1:], 80))})
			}
		}
	}
	if !started {
		viol = append(viol, [2]string{"trace-no-marker", "start marker not found in the trace"})
	}
	return viol, calls
}

func strconvUnquoteStrace(s string) (string, error) {
	// strace escapes like C: \n \t \\ \" and octal \NNN
	var sb strings.Builder
	for i := 0; i < len(s); i++ {
		if s[i] != '\\' || i+1 >= len(s) {
			sb.WriteByte(s[i])
			continue
		}
		i++
		switch s[i] {
		case 'n':
			sb.WriteByte('\n')
		case 't':
			sb.WriteByte('\t')
		case 'r':
			sb.WriteByte('\r')
		case 'v':
			sb.WriteByte(11)
		case 'f':
			sb.WriteByte(12)
		case 'x':
			if i+2 < len(s)+0 {
				var v int
				fmt.Sscanf(s[i+1:i+3], "%x", &v)
				sb.WriteByte(byte(v))
				i += 2
			}
		default:
			if s[i] >= '0' && s[i] <= '7' {
				j := i
				v := 0
				for j < len(s) && j < i+3 && s[j] >= '0' && s[j] <= '7' {
					v = v*8 + int(s[j]-'0')
					j++
				}
				sb.WriteByte(byte(v))
				i = j - 1
			} else {
				sb.WriteByte(s[i])
			}
		}
	}
	return sb.String(), nil
}

// c17CLI runs the grol command with -restrict-io from a work directory, with scripts inside and outside of it: load
// and save must only ever reach plain names of the work directory, wherever the script itself lives.
func c17CLI(c *core.Ctx) int {
	if c.Shard != 0 && c.Of > 1 {
		return 0
	}
	self, _ := os.Executable()
	grol := self + ".grol"
	if _, err := os.Stat(grol); err != nil {
		c.Note("cli-binary-missing", 1)
		return 0
	}
	n := 0
	for _, where := range []string{"inside", "outside", "parent"} {
		for _, mode := range []string{"file", "shebang", "stdin", "command"} {
			for _, op := range []string{"load", "save"} {
				for _, name := range []string{"lib", "lib.gr", "here"} {
					root, err := os.MkdirTemp("", "c17cli-")
					if err != nil {
						return n
					}
					work := filepath.Join(root, "top", "work")
					elsewhere := filepath.Join(root, "elsewhere")
					_ = os.MkdirAll(work, 0o755)
					_ = os.MkdirAll(elsewhere, 0o755)
					scriptDir := map[string]string{"inside": work, "outside": elsewhere, "parent": filepath.Join(root, "top")}[where]
					// sentinels that must never be read: next to the script (unless that is the work directory) and above
					for _, d := range []string{elsewhere, filepath.Join(root, "top"), root} {
						_ = os.WriteFile(filepath.Join(d, "lib.gr"), []byte("SENTINEL_"+filepath.Base(d)+" = 1\n"), 0o644)
					}
					_ = os.WriteFile(filepath.Join(work, "here.gr"), []byte("HERE = 1\n"), 0o644)
					prog := fmt.Sprintf("r = catch(%s(%q)); println(\"RESULT\", r.err, catch(HERE).err, catch(SENTINEL_elsewhere).err, catch(SENTINEL_top).err)\n", op, name)
					script := filepath.Join(scriptDir, "script.gr")
					_ = os.WriteFile(script, []byte(prog), 0o644)
					before := c17Snapshot(root)
					args := []string{"-restrict-io", "-no-auto", "-quiet"}
					var stdin io.Reader
					switch mode {
					case "file":
						args = append(args, script)
					case "shebang":
						args = append(args, "-s", script)
					case "stdin":
						args = append(args, "-")
						stdin = strings.NewReader(prog)
					case "command":
						args = append(args, "-c", prog)
					}
					cmd := exec.Command(grol, args...)
					cmd.Dir = work
					cmd.Stdin = stdin
					cmd.Env = append(os.Environ(), "NO_COLOR=1")
					outb, _ := cmd.CombinedOutput()
					out := string(outb)
					after := c17Snapshot(root)
					diff := c17Diff(before, after)
					key := fmt.Sprintf("cli %s script=%s %s(%q)", mode, where, op, name)
					cs := core.Case{Kind: "cli", Cfg: mode + "/" + where, Data: op + " " + name}
					outcome := "confined"
					wantFile := "top/work/" + strings.TrimSuffix(name, ".gr") + ".gr"
					for _, d := range diff {
						if !(op == "save" && d == wantFile) {
							outcome = "write-outside"
							c.Report(&core.Viol{Class: "cli:write-outside", Detail: fmt.Sprintf("%s changed %s", key, d), Case: cs})
						}
					}
					if strings.Contains(out, "RESULT") {
						f := strings.Fields(out[strings.Index(out, "RESULT"):])
						// f[1]=op failed, f[2]=HERE undefined, f[3], f[4]=sentinels undefined
						if len(f) >= 5 && (f[3] != "true" || f[4] != "true") {
							outcome = "read-outside"
							c.Report(&core.Viol{Class: "cli:read-outside", Detail: fmt.Sprintf("%s defined a sentinel from outside the work directory: %s", key, firstLine(out[strings.Index(out, "RESULT"):])), Case: cs})
						}
						if len(f) >= 5 && op == "load" && name != "here" && f[1] != "true" {
							outcome = "load-of-missing-name-succeeds"
							c.Report(&core.Viol{Class: "cli:load-of-missing-name-succeeds", Detail: fmt.Sprintf("%s: no such file in the work directory, yet load did not fail: %s", key, firstLine(out[strings.Index(out, "RESULT"):])), Case: cs})
						}
					} else {
						outcome = "no-result"
						c.Report(&core.Viol{Class: "harness: cli run produced no result", Detail: key + ": " + trunc(out, 300), Case: cs})
					}
					c.CountNT(key, "cli:"+outcome, true)
					n++
					_ = os.RemoveAll(root)
				}
			}
		}
	}
	return n
}

func runC17(c *core.Ctx) {
	self, _ := os.Executable()
	maxLen, traceLen := 4, 2
	shards := 12
	if !c.Quick() {
		maxLen, traceLen = 5, 3
		shards = 16
	}
	type job struct {
		cfg, mode, order string
		shard, of, l     int
		reinit           bool // the child calls extensions.Init again with every other configuration before the calls
	}
	var jobs []job
	for _, cfg := range []string{"restricted", "emptyonly", "disabled"} {
		n := shards
		if cfg != "restricted" {
			n = 2
		}
		for i := 0; i < n; i++ {
			l := maxLen
			if cfg != "restricted" {
				l = 3
			}
			jobs = append(jobs, job{cfg, "snap", "fwd", i, n, l, false})
		}
		jobs = append(jobs, job{cfg, "trace", "fwd", 0, 1, traceLen, false})
		jobs = append(jobs, job{cfg, "snap", "fwd", 0, 1, 3, true}) // the verdicts do not depend on later Init calls
	}
	jobs = append(jobs, job{"restricted", "snap", "rev", 0, 1, 3, false})   // verdict independent of enumeration order / pre-existing targets
	jobs = append(jobs, job{"unrestricted", "snap", "fwd", 0, 1, 2, false}) // positive control: the oracle must flag escapes here
	type result struct {
		j    job
		part core.Part
		err  string
		ctrl int64
	}
	sem := make(chan struct{}, 16)
	results := make(chan result, len(jobs))
	_, straceErr := exec.LookPath("strace")
	for _, j := range jobs {
		go func(j job) {
			sem <- struct{}{}
			defer func() { <-sem }()
			args := []string{"C17-child", j.cfg, fmt.Sprintf("%d/%d", j.shard, j.of), fmt.Sprint(j.l), j.mode, j.order}
			var cmd *exec.Cmd
			traceFile := ""
			if j.mode == "trace" {
				if straceErr != nil {
					results <- result{j: j, err: "strace not available"}
					return
				}
				tf, _ := os.CreateTemp("", "c17-trace-")
				traceFile = tf.Name()
				tf.Close()
				defer os.Remove(traceFile)
				cmd = exec.Command("strace", append([]string{"-f", "-qq", "-s", "9000", "-e", "trace=%file", "-o", traceFile, self}, args...)...)
			} else {
				cmd = exec.Command(self, args...)
			}
			cmd.Env = append(os.Environ(), "VERIF_IOCFG="+j.cfg, "GOMAXPROCS=2")
			if j.reinit {
				cmd.Env = append(cmd.Env, "VERIF_IOCFG_REINIT=1")
			}
			outb, err := cmd.Output()
			res := result{j: j}
			if err != nil {
				res.err = err.Error()
				results <- res
				return
			}
			for _, line := range strings.Split(string(outb), "\n") {
				if strings.HasPrefix(line, "C17CHILD ") {
					var co c17ChildOut
					if json.Unmarshal([]byte(strings.TrimPrefix(line, "C17CHILD ")), &co) == nil {
						res.part = co.Part
					}
				}
			}
			if traceFile != "" {
				// the child's cwd is unknown here: recover it from its chdir in the trace
				cwd := ""
				if b, err := os.ReadFile(traceFile); err == nil {
					for _, l := range strings.Split(string(b), "\n") {
						if strings.Contains(l, "chdir(\"") && strings.Contains(l, "/dir/cwd") {
							s := l[strings.Index(l, "chdir(\"")+7:]
							cwd = s[:strings.Index(s, "\"")]
						}
					}
				}
				viols, calls := c17CheckTrace(j.cfg, traceFile, cwd)
				res.ctrl = int64(calls)
				for _, v := range viols {
					if res.part.NewViolCount == nil {
						res.part.NewViolCount = map[string]int64{}
					}
					cl := j.cfg + ":" + v[0]
					res.part.NewViolCount[cl]++
					if res.part.NewViolCount[cl] <= 3 {
						res.part.NewViols = append(res.part.NewViols, core.Viol{Class: cl, Detail: v[1], Case: core.Case{Kind: "trace", Cfg: j.cfg, Data: v[1]}})
					}
				}
			}
			results <- res
		}(j)
	}
	for range jobs {
		r := <-results
		if r.err != "" {
			if r.j.mode == "trace" && strings.Contains(r.err, "strace") {
				c.Note("strace_unavailable", 1)
				continue
			}
			c.Report(&core.Viol{Class: "harness: child failed", Detail: fmt.Sprintf("%+v: %s", r.j, r.err), Case: core.Case{Kind: "child", Data: fmt.Sprintf("%+v", r.j)}})
			continue
		}
		if r.j.cfg == "unrestricted" {
			// positive control: escapes must have been flagged; they are not violations of the property
			var flagged int64
			for cl, n := range r.part.NewViolCount {
				if strings.Contains(cl, "write-outside") || strings.Contains(cl, "read-outside") || strings.Contains(cl, "accepts-bad-name") {
					flagged += n
				}
			}
			c.Note("positive_control_escapes_flagged_in_unrestricted_mode", flagged)
			if flagged == 0 {
				c.Report(&core.Viol{Class: "harness: positive control failed", Detail: "unrestricted mode: the oracle flagged no escape", Case: core.Case{Kind: "control"}})
			}
			c.P.Evals += r.part.Evals
			continue
		}
		c.P.Evals += r.part.Evals
		c.P.Nontrivial += r.part.Nontrivial
		for k, v := range r.part.Outcomes {
			c.P.Outcomes[k] += v
		}
		for k, v := range r.part.Spaces {
			if v > c.P.Spaces[k] {
				c.P.Spaces[k] = v
			}
		}
		for k, v := range r.part.NewViolCount {
			c.P.NewViolCount[k] += v
		}
		c.P.NewViols = append(c.P.NewViols, r.part.NewViols...)
		for k, v := range r.part.Known {
			c.P.Known[k] += v
			if c.P.KnownExample[k] == "" {
				c.P.KnownExample[k] = r.part.KnownExample[k]
			}
		}
		if len(c.P.Samples) < 30 {
			c.P.Samples = append(c.P.Samples, r.part.Samples...)
		}
		if r.j.mode == "trace" {
			c.Note("traced_file_syscalls_"+r.j.cfg, r.ctrl)
		}
	}
	ncli := c17CLI(c)
	defer func() {
		c.P.Bound += fmt.Sprintf("; plus multi-byte and 63..5000-byte names with path syntax appended; the grol command itself (%d runs: file / shebang / stdin / -c modes x script inside or outside the current directory x load and save of names that exist next to the script or above it)", ncli)
	}()
	c.P.Bound = fmt.Sprintf("every name of <=%d symbols over the 13-symbol alphabet {a Z 0 _ g r . / \\ NUL space ~ 0xFF}, bare and with .gr appended, x save/load/image.save in restricted mode (<=3 symbols in empty-only and disabled mode); reverse enumeration order; the <=3-symbol names again in children that call extensions.Init a second time with each other configuration; syscall trace (strace) layer for names of <=%d symbols per configuration; unrestricted mode as positive control", maxLen, traceLen)
}

func init() {
	core.RegisterChild("C17-child", c17Child)
	core.Register(&core.Check{
		ID:          "C17",
		Level:       "exploration",
		Rule:        "file names enumerated exhaustively (every string of <=4 (thorough 5) symbols over {a Z 0 _ g r . / \\ NUL space ~ 0xFF}, bare and with .gr) x {save(name), load(name), image.new+image.save(name)} x configurations {restricted, empty-only, load/save disabled}, one child process per configuration and shard, each in its own scratch tree with sentinel files (each defining a recognisable binding) at every location a short name can spell (parent and root directories, sub-directories, names without the suffix, other suffixes). Oracle: after every call the snapshot (names, sizes, content hashes) of the whole scratch tree differs from the previous one only by the one file the reference verdict allows (X.gr in cwd with X alphanumeric/underscore, .gr in empty-only mode, grol.png for image.save); a call that returned an error changed nothing; a rejected name is rejected and an accepted one accepted exactly per the reference verdict; after load no sentinel binding from outside the allowed file is defined; exec/run (and save/load when disabled) are unbound; second layer: the child runs under strace -f and every path opened for writing/creation/rename/unlink and every non-system path opened for reading after a start marker lies in cwd and has the allowed form. Unrestricted mode is run as positive control (the oracle must flag its escapes). Non-trivial = every (name, configuration). The <=3-symbol names are explored again in children that call extensions.Init a second time with every other configuration (the first configuration must stay in force).",
		Assume:      []string{"strace is available (if not the second layer is skipped and noted)"},
		QuickCap:    100 * time.Second,
		ThoroughCap: 20 * time.Minute,
		Workers:     1,
		Run:         runC17,
		Replay: func(c *core.Ctx, cs core.Case) *core.Viol {
			self, _ := os.Executable()
			cmd := exec.Command(self, "C17-child", cs.Cfg, "0/1", "hex:"+hex.EncodeToString(cs.Bytes()), "snap", "fwd")
			cmd.Env = append(os.Environ(), "VERIF_IOCFG="+cs.Cfg)
			outb, err := cmd.Output()
			if err != nil {
				return &core.Viol{Class: "harness: child failed", Detail: err.Error(), Case: cs}
			}
			for _, line := range strings.Split(string(outb), "\n") {
				if strings.HasPrefix(line, "C17CHILD ") {
					var co c17ChildOut
					if json.Unmarshal([]byte(strings.TrimPrefix(line, "C17CHILD ")), &co) == nil && len(co.Part.NewViols) > 0 {
						v := co.Part.NewViols[0]
						return &v
					}
				}
			}
			return nil
		},
	})
}
