package checks

import (
	"encoding/json"
	"fmt"
	"runtime/debug"
	"strings"
	"time"

	"grol.io/grol/ast"
	"grol.io/grol/eval"
	"grol.io/grol/repl"
	"grol.io/grol/token"
	"verif/internal/core"
	"verif/internal/gen"
	"verif/internal/obs"
)

// C13 — macro expansion is exact syntactic substitution.
//
// Reference: the harness substitutes textually in its own rendering of the template (each hole
// `unquote(p)` is a leaf with a unique spelling) and wraps every substituted argument in parentheses, so that
// the hand-substituted program parses to "template with the argument's tree at the hole" whatever the
// operators around the hole.

var c13Args = []string{"1", "v", "a + b", "a || b", "a = 1", "z => z", `println("s")`, "i++", "f(2)", "[1, 2]", "{1: 2}", "m2(3)", "if a { 1 }", `"str"`}

const c13Prelude = `v = 5; a = true; b = false; i = 0; f = func(x) { x * 2 }; g = func(x) { x }; arr = [10, 20]`
const c13M2 = "m2 = macro(q) { quote(unquote(q) + 100) }"

type c13Case struct {
	params []string // macro parameter names
	tmpl   string   // template text containing unquote(<param>) holes
	body   string   // alternative full macro body (when not simply quote(tmpl))
	site   string   // call-site context containing %s for the macro call
	args   [][]string
	split  bool // definition and uses in separate inputs
}

func (k *c13Case) def() string {
	body := "quote(" + k.tmpl + ")"
	if k.body != "" {
		body = k.body
	}
	return "mm = macro(" + strings.Join(k.params, ", ") + ") { " + body + " }"
}

// subst renders the template with every hole replaced by the parenthesised argument text.
func (k *c13Case) subst(args []string) string {
	t := k.tmpl
	for i, p := range k.params {
		t = strings.ReplaceAll(t, "unquote("+p+")", "("+args[i]+")")
	}
	return "(" + t + ")"
}

func (k *c13Case) programs() (withMacro []string, substituted []string) {
	var uses, subs []string
	for _, as := range k.args {
		call := "mm(" + strings.Join(as, ", ") + ")"
		uses = append(uses, strings.Replace(k.site, "%s", call, 1))
		sub := k.subst(as)
		// nested macro calls inside arguments are expanded too
		if k.site == "m2(%s)" {
			subs = append(subs, "(("+sub+") + 100)") // the call site is itself an argument of another macro
		} else {
			subs = append(subs, strings.Replace(k.site, "%s", sub, 1))
		}
	}
	m2sub := func(s string) string { return strings.ReplaceAll(s, "m2(3)", "((3) + 100)") }
	if k.split {
		withMacro = append([]string{c13M2 + ";\n" + k.def()}, uses...)
		for _, s := range subs {
			substituted = append(substituted, m2sub(s))
		}
		substituted = append([]string{"nil"}, substituted...)
		return
	}
	withMacro = []string{c13M2 + ";\n" + k.def() + ";\n" + strings.Join(uses, ";\n")}
	substituted = []string{m2sub(strings.Join(subs, ";\n"))}
	return
}

type c13JSON struct {
	Params []string   `json:"params"`
	Tmpl   string     `json:"tmpl"`
	Body   string     `json:"body,omitempty"`
	Site   string     `json:"site"`
	Args   [][]string `json:"args"`
	Split  bool       `json:"split"`
}

func (k *c13Case) key() string {
	b, _ := json.Marshal(c13JSON{k.params, k.tmpl, k.body, k.site, k.args, k.split})
	return string(b)
}

// expand parses, defines and expands macros like repl.evalOne does.
func c13Expand(s *eval.State, src string) (tree ast.Node, err string) {
	defer func() {
		if r := recover(); r != nil {
			err = panicClass(r, debug.Stack())
		}
	}()
	pr := parseText([]byte(src), false)
	if !pr.clean() {
		return nil, "parse: " + strings.Join(pr.errs, ";") + pr.panic
	}
	s.DefineMacros(pr.prog)
	if s.NumMacros() == 0 {
		return pr.prog, ""
	}
	return s.ExpandMacros(pr.prog), ""
}

func c13One(k *c13Case) *core.Viol {
	withMacro, substituted := k.programs()
	text := k.key()
	cs := core.Case{Kind: "macro", Data: text}
	mk := func(class, detail string) *core.Viol {
		return &core.Viol{Class: class, Detail: detail, Case: cs, FindText: strings.Join(withMacro, " ;; ")}
	}
	// (1) expanded tree == tree of the hand-substituted program, input by input on one state
	st := eval.NewState()
	defBefore := ""
	for i := range withMacro {
		exp, e1 := c13Expand(st, withMacro[i])
		if e1 != "" {
			if sp := parseText([]byte(substituted[i]), false); strings.HasPrefix(e1, "parse:") && !sp.clean() {
				// the rendered template is not valid source by itself (e.g. `1.k`): neither program is a case
				return &core.Viol{Class: "unsupported", Detail: "template does not parse: " + withMacro[i], Case: cs}
			}
			return mk("expand-failed", fmt.Sprintf("%q: %s", withMacro[i], e1))
		}
		sub := parseText([]byte(substituted[i]), false)
		if !sub.clean() {
			return &core.Viol{Class: "unsupported", Detail: "substituted program does not parse: " + substituted[i] + " " + strings.Join(sub.errs, ";"), Case: cs}
		}
		d1 := obs.DumpAST(exp, obs.DumpOpt{})
		d2 := obs.DumpAST(sub.prog, obs.DumpOpt{})
		if k.split && i == 0 {
			// definitions only: everything is removed from the program
			if d1 != "(Statements [])" {
				return mk("definition-not-removed", d1)
			}
			defBefore = k.def()
			continue
		}
		if d1 != d2 {
			return mk("expansion-differs@"+diffSite(d2, d1), fmt.Sprintf("expanded %q to %s, hand-substituted %q is %s", withMacro[i], d1, substituted[i], d2))
		}
		// (3) the expanded tree prints and re-parses to the same tree
		for _, m := range bothModes {
			p1, pan := printNode(exp, m.compact, false)
			if pan != "" {
				return mk("expanded-print-"+pan, p1)
			}
			r1 := parseText([]byte(p1), false)
			if !r1.clean() || obs.DumpAST(r1.prog, obs.DumpOpt{}) != d1 {
				if c02Known(sub.prog, r1.prog, obs.DumpOpt{}) != "" {
					continue // a known printer finding (C02), not a macro defect
				}
				return mk("expanded-print-roundtrip", fmt.Sprintf("%s mode: expanded tree printed %q re-parses to %v %s", m.name, p1, r1.errs, trunc(obs.DumpAST(r1.prog, obs.DumpOpt{}), 300)))
			}
		}
	}
	_ = defBefore
	// (2) definition unaltered by its uses: expanding the same uses again on the same state gives the same trees
	for i := range withMacro {
		if k.split && i == 0 {
			continue
		}
		src := withMacro[i]
		if !k.split {
			// strip the definitions (already defined in st)
			src = strings.Join(strings.Split(src, "\n")[2:], "\n")
		}
		exp, e1 := c13Expand(st, src)
		sub := parseText([]byte(substituted[i]), false)
		if e1 != "" || obs.DumpAST(exp, obs.DumpOpt{}) != obs.DumpAST(sub.prog, obs.DumpOpt{}) {
			return mk("second-expansion-differs", fmt.Sprintf("%q expanded again: %s %s", src, e1, trunc(obs.DumpAST(exp, obs.DumpOpt{}), 300)))
		}
	}
	// (4) evaluation: identical observation records through repl.EvalOne
	for _, noReg := range []bool{false, true} {
		x1 := newSess(sessCfg{noReg: noReg})
		x2 := newSess(sessCfg{noReg: noReg})
		implEval(x1, c13Prelude, 20000)
		implEval(x2, c13Prelude, 20000)
		for i := range withMacro {
			r1 := implEval(x1, withMacro[i], 20000)
			r2 := implEval(x2, substituted[i], 20000)
			if r1.budget || r2.budget {
				if r1.budget != r2.budget {
					return mk("evaluation-differs", fmt.Sprintf("noReg=%v input %d: only one side exhausts the step budget", noReg, i))
				}
				break // non-terminating in both (e.g. for true {}): nothing more to compare
			}
			// error messages carry the printed function text (stack): compare outputs, values, error presence and panics
			if r1.out != r2.out || r1.isErr != r2.isErr || (r1.panicked != "") != (r2.panicked != "") || (!r1.isErr && r1.val != r2.val) {
				return mk("evaluation-differs", fmt.Sprintf("noReg=%v input %d: with macro out=%q val=%s err=%v %q ; hand-substituted out=%q val=%s err=%v %q", noReg, i, r1.out, r1.val, r1.isErr, r1.errText, r2.out, r2.val, r2.isErr, r2.errText))
			}
		}
	}
	return nil
}

// doRedef: define k1's macro, use it, redefine the same name with k2's template, use the identical call text again.
func doRedef(c *core.Ctx, k1, k2 *c13Case) bool {
	if c.Expired() {
		return false
	}
	key := "redef|" + k1.key() + "|" + k2.key()
	if !c.Mine("macro", key) {
		return true
	}
	run := func() *core.Viol {
		st := eval.NewState()
		cs := core.Case{Kind: "redef", Data: key}
		for _, k := range []*c13Case{k1, k2} {
			wm, sub := k.programs()
			for i := range wm {
				exp, e1 := c13Expand(st, wm[i])
				if e1 != "" {
					return &core.Viol{Class: "expand-failed", Detail: e1, Case: cs}
				}
				if i == 0 {
					continue
				}
				sp := parseText([]byte(sub[i]), false)
				if !sp.clean() {
					return nil
				}
				if d1, d2 := obs.DumpAST(exp, obs.DumpOpt{}), obs.DumpAST(sp.prog, obs.DumpOpt{}); d1 != d2 {
					return &core.Viol{Class: "expansion-after-redefinition-differs", Detail: fmt.Sprintf("after (re)defining %q, %q expanded to %s, expected %s", k.def(), wm[i], trunc(d1, 200), trunc(d2, 200)), Case: cs, FindText: key}
				}
			}
		}
		return nil
	}
	var v *core.Viol
	if run() != nil {
		v = c.Run(run)
	}
	out := "exact"
	if v != nil {
		out = v.Class
	}
	c.Count("macro: "+trunc(key, 160), out, true)
	c.P.Traces++
	c.P.Transitions += 4 // definition, two uses, redefinition: inputs evaluated on one state
	return true
}

// ---- session family: definitions, redefinitions and uses spread over the inputs of one session, through the
// top-level input path and through eval(); every use is checked against a small model of the macro table, and
// (transparency) must print what it prints when the earlier pure uses are left out of the history.

type c13Input struct {
	src  string
	pure bool // an observation only: defines nothing
}

var c13SessInputs = []c13Input{
	{"dbl = macro(x) { quote(unquote(x) * 2) }", false},
	{"dbl = macro(x) { quote(unquote(x) + 100) }", false},
	{"inc = macro(x) { quote(unquote(x) + 1) }", false},
	{"func dbl(x) { x * 3 }", false},
	{"println(catch(dbl(5)))", true},
	{"println(catch(inc(dbl(1))))", true},
	{"println(catch(eval(\"dbl(7)\")))", true},
	{"hh = func(n) { dbl(n + 1) }; println(catch(hh(1)))", false},
	{"println(catch(eval(\"tri = macro(x) { quote(unquote(x) * 3) }; tri(2)\")))", false},
	{"println(catch(hh(4)))", true},
	// a macro whose body fails while it is being expanded (a recovered panic / an error): later uses are unaffected
	{"bad = macro() { quote(unquote(1 + 2)) }; bad()", false},
	{"bad2 = macro(x) { 1 / 0 }; println(catch(bad2(3)))", false},
	// a macro defined and used in one and the same input (the first thing some entry points ever see)
	{"sq = macro(x) { quote(unquote(x) * unquote(x)) }; println(sq(3))", false},
	// unquote of values computed at expansion time (an integer, a boolean)
	{"k3 = macro(x) { quote(unquote(x) + unquote(1 + 2)) }; println(k3(4))", false},
	{"tb = macro(x) { quote(if unquote(1 < 2) { unquote(x) } else { 0 }) }; println(tb(5))", false},
}

// model of the session
type c13Model struct {
	dbl     int  // 0 none, 1 (*2), 2 (+100)
	inc     bool // inc macro defined
	dblFunc bool
	hh      int // 0 undefined, 1 body n+1 * 2, 2 body n+1 + 100, 3 body calls dbl at run time
}

func (m *c13Model) dblOf(v int) (int, bool) {
	switch {
	case m.dbl == 1:
		return v * 2, true
	case m.dbl == 2:
		return v + 100, true
	case m.dblFunc:
		return v * 3, true
	}
	return 0, false
}

// step returns the expected printed line ("" = nothing printed, "ERR" = a caught error map).
func (m *c13Model) step(i int) string {
	p := func(v int, ok bool) string {
		if !ok {
			return "ERR"
		}
		return fmt.Sprint(v)
	}
	switch i {
	case 0:
		m.dbl = 1
	case 1:
		m.dbl = 2
	case 2:
		m.inc = true
	case 3:
		m.dblFunc = true
	case 4:
		return p(m.dblOf(5))
	case 5:
		v, ok := m.dblOf(1)
		if !ok || !m.inc {
			return "ERR"
		}
		return p(v+1, true)
	case 6:
		return p(m.dblOf(7))
	case 7:
		switch m.dbl {
		case 1:
			m.hh = 1
		case 2:
			m.hh = 2
		default:
			m.hh = 3
		}
		return m.callHH(1)
	case 8:
		return "6"
	case 9:
		return m.callHH(4)
	case 12:
		return "9" // defined and used in the same input, whatever the table held before
	case 13:
		return "7"
	case 14:
		return "5"
	}
	return ""
}

func (m *c13Model) callHH(n int) string {
	switch m.hh {
	case 0:
		return "ERR"
	case 1:
		return fmt.Sprint((n + 1) * 2)
	case 2:
		return fmt.Sprint(n + 1 + 100)
	}
	// body calls dbl at run time: a function named dbl (macros are only expanded when the body was parsed)
	if m.dblFunc {
		return fmt.Sprint((n + 1) * 3)
	}
	return "ERR"
}

// c13Driver: how the inputs reach the interpreter. 0: repl.EvalOne; 1: the repl.Grol Parse / Run API on one
// persistent state; 2: repl.EvalOne with the exported token.ResetInterning() called between the inputs.
var c13Driver int

func c13SessRun(hist []int, noReg bool) []string {
	x := newSess(sessCfg{noReg: noReg})
	var g *repl.Grol
	var gout strings.Builder
	if c13Driver == 1 {
		g = repl.New()
		g.State.NoReg = noReg
		g.State.Out, g.State.LogOut, g.State.NoLog = &gout, &gout, true
	}
	outs := make([]string, len(hist))
	for k, i := range hist {
		var r stepRec
		switch c13Driver {
		case 1:
			gout.Reset()
			func() {
				defer func() {
					if rr := recover(); rr != nil {
						r.panicked = true
						r.errs = []string{fmt.Sprint(rr)}
						g.State.Reset()
						g.State.Out, g.State.LogOut = &gout, &gout
					}
				}()
				if err := g.Parse([]byte(c13SessInputs[i].src)); err != nil {
					r.errs = []string{err.Error()}
					return
				}
				if err := g.Run(&gout); err != nil {
					r.errs = []string{err.Error()}
				}
			}()
			r.out = gout.String()
		case 2:
			token.ResetInterning()
			r = x.step(c13SessInputs[i].src)
		default:
			r = x.step(c13SessInputs[i].src)
		}
		o := strings.TrimSpace(r.out)
		if nl := strings.IndexByte(o, '\n'); nl >= 0 {
			o = o[:nl] // the printed line; what follows is the shown value of the input
		}
		if strings.HasPrefix(o, "{\"err\":true") {
			o = "ERR"
		} else if strings.HasPrefix(o, "{\"err\":false,\"value\":") {
			o = strings.TrimSuffix(strings.TrimPrefix(o, "{\"err\":false,\"value\":"), "}")
		}
		if len(r.errs) > 0 {
			o = "FAILED:" + errTemplate(r.errs[0])
		}
		outs[k] = o
	}
	return outs
}

func c13SessCheck(hist []int) *core.Viol {
	cs := core.Case{Kind: "session", Data: c20Ints(hist)}
	parts := make([]string, len(hist))
	for k, i := range hist {
		parts[k] = c13SessInputs[i].src
	}
	text := strings.Join(parts, " ;; ")
	if c13Driver != 0 {
		cs.Cfg = fmt.Sprint("driver=", c13Driver)
	}
	for _, noReg := range []bool{false, true} {
		got := c13SessRun(hist, noReg)
		m := &c13Model{}
		for k, i := range hist {
			want := m.step(i)
			if want != "" && got[k] != want {
				return &core.Viol{Class: "session:use-differs-from-model", Detail: fmt.Sprintf("input %d %q printed %q, expected %q (macro table: dbl=%d inc=%v func dbl=%v) in %s", k, c13SessInputs[i].src, got[k], want, m.dbl, m.inc, m.dblFunc, text), Case: cs, FindText: text}
			}
		}
		// transparency: the last input prints the same when the earlier pure uses are dropped
		last := len(hist) - 1
		var red []int
		for k, i := range hist {
			if k == last || !c13SessInputs[i].pure {
				red = append(red, i)
			}
		}
		if len(red) < len(hist) {
			g2 := c13SessRun(red, noReg)
			if g2[len(red)-1] != got[last] {
				return &core.Viol{Class: "session:earlier-use-changes-later-use", Detail: fmt.Sprintf("%q prints %q after %s, but %q without the earlier uses", c13SessInputs[hist[last]].src, got[last], text, g2[len(red)-1]), Case: cs, FindText: text}
			}
		}
	}
	return nil
}

func c13Session(c *core.Ctx, bounds *[]string) bool {
	depth := 4
	if !c.Quick() {
		depth = 5
	}
	ok := enumTuples(len(c13SessInputs), depth, func(idx []int) bool {
		if len(idx) == 0 {
			return true
		}
		if c.P.Evals&0xff == 0 && c.Expired() {
			return false
		}
		key := "session|" + c20Ints(idx)
		if !c.MineNoDedup("session", key) {
			return true
		}
		hist := append([]int{}, idx...)
		var v *core.Viol
		if c13SessCheck(hist) != nil {
			v = c.Run(func() *core.Viol { return c13SessCheck(hist) })
		}
		out := "session-exact"
		if v != nil {
			out = v.Class
		}
		c.Count("session: "+key, out, true)
		c.P.Traces++
		c.P.Transitions += int64(len(hist)) // inputs evaluated on the session
		return true
	})
	// the same histories (one level less deep) through the other ways inputs reach the interpreter
	for drv := 1; drv <= 2 && ok; drv++ {
		c13Driver = drv
		ok = enumTuples(len(c13SessInputs), depth-1, func(idx []int) bool {
			if len(idx) == 0 {
				return true
			}
			if c.P.Evals&0xff == 0 && c.Expired() {
				return false
			}
			key := fmt.Sprintf("session-d%d|%s", drv, c20Ints(idx))
			if !c.MineNoDedup("session", key) {
				return true
			}
			hist := append([]int{}, idx...)
			var v *core.Viol
			if c13SessCheck(hist) != nil {
				v = c.Run(func() *core.Viol { return c13SessCheck(hist) })
			}
			out := "session-exact"
			if v != nil {
				out = v.Class
			}
			c.Count("session: "+key, out, true)
			c.P.Traces++
			c.P.Transitions += int64(len(hist))
			return true
		})
	}
	c13Driver = 0
	if ok {
		*bounds = append(*bounds, fmt.Sprintf("the histories of <=%d inputs again through the repl.Grol Parse/Run API and through repl.EvalOne with token.ResetInterning() between inputs", depth-1))
	}
	if ok {
		*bounds = append(*bounds, fmt.Sprintf("sessions: every history of <=%d inputs over %d (two definitions of one macro, a second macro, a function of the same name, uses at top level / nested in another macro's argument / through eval() / inside a function defined then / a macro defined and used inside one eval string): every use checked against a model of the macro table and against the same history without the earlier uses", depth, len(c13SessInputs)))
	}
	return ok
}

func c13Templates(maxSize int) []string {
	cfg := gen.Cfg{
		Leaves:   []string{"unquote(x)", "unquote(y)", "1", "v"},
		Prefix:   []string{"-", "!"},
		Infix:    []string{"+", "-", "*", "==", "&&", "=", ":"},
		Builtins: []string{"len", "println"},
		Stmts:    false, Rich: true,
	}
	var out []string
	seen := map[string]bool{}
	for size := 1; size <= maxSize; size++ {
		cfg.EnumExpr(size, func(n *gen.N) bool {
			t := gen.Render([]*gen.N{n}, gen.Policy{FullParens: true, StmtSep: "; "})
			if strings.Contains(t, "unquote(") && !strings.Contains(t, "macro(") && !seen[t] {
				seen[t] = true
				out = append(out, t)
			}
			return true
		})
	}
	return out
}

var c13Sites = []string{"%s", "func() { %s }()", "for 2 { %s }", "[%s]", "{%s: 1}", "{1: %s}", "%s[0]", "%s.k", "%s(2)", "1 + %s", "-%s", "g(%s)", "m2(%s)", "w = %s", "if %s { 1 }", "return %s",
	"%s + %s2", "func(p) { %s }(3)", "x => %s", "g(1, %s)"}

func runC13(c *core.Ctx) {
	var bounds []string
	do := func(k *c13Case) bool {
		if c.P.Evals&0xff == 0 && c.Expired() {
			return false
		}
		key := k.key()
		if !c.Mine("macro", key) {
			return true
		}
		c.Current(core.Case{Kind: "macro", Data: key})
		vv := c13One(k)
		if vv != nil && vv.Class == "unsupported" {
			c.Count("macro: "+trunc(key, 160), "unsupported", false)
			return true
		}
		var v *core.Viol
		if vv != nil {
			v = c.Run(func() *core.Viol { return c13One(k) })
		}
		out := "exact"
		if v != nil {
			out = v.Class
		}
		c.Count("macro: "+trunc(key, 160), out, true)
		c.P.Traces++
		c.P.Transitions += int64(1 + len(k.args)) // the definition and each use are inputs evaluated on one state
		return true
	}
	ok := true
	// F1: every template x every ordered pair of arguments at top level
	tsize := 3
	if !c.Quick() {
		tsize = 4
	}
	tmpls := c13Templates(tsize)
	argsF1 := c13Args
	if !c.Quick() {
		argsF1 = c13Args[:8] // size-4 templates are ~30x more numerous
	}
	for _, t := range tmpls {
		for _, ax := range argsF1 {
			for _, ay := range argsF1 {
				if !strings.Contains(t, "unquote(y)") && ay != argsF1[0] {
					continue
				}
				if !strings.Contains(t, "unquote(x)") && ax != argsF1[0] {
					continue
				}
				if ok = do(&c13Case{params: []string{"x", "y"}, tmpl: t, site: "%s", args: [][]string{{ax, ay}}}); !ok {
					break
				}
			}
		}
	}
	bounds = append(bounds, fmt.Sprintf("%d templates (all trees of size <=%d over holes/literals/identifiers x infix, prefix, call, index, slice, dot, array, map, if, for, lambda, func, builtins) x all argument pairs from a %d-argument set", len(tmpls), tsize, len(argsF1)))
	// F2: small templates x small argument set x every call-site context, 1-2 uses, same input and split over inputs
	if ok {
		small := c13Templates(2)
		sargs := []string{"1", "a || b", `println("s")`, "i++", "z => z"}
		for _, t := range small {
			for _, site := range c13Sites {
				for _, ax := range sargs {
					for _, ay := range sargs[:2] {
						for _, split := range []bool{false, true} {
							s1 := strings.Replace(site, "%s2", "mm("+ay+", "+ax+")", 1)
							k := &c13Case{params: []string{"x", "y"}, tmpl: t, site: s1, args: [][]string{{ax, ay}}, split: split}
							if strings.Contains(site, "%s2") {
								// the second call site in the same expression is substituted by hand here
								k2 := &c13Case{params: []string{"x", "y"}, tmpl: t}
								k.site = strings.Replace(site, "%s2", "mm("+ay+", "+ax+")", 1)
								_ = k2
								continue
							}
							if ok = do(k); !ok {
								break
							}
							// two uses with different arguments
							k3 := &c13Case{params: []string{"x", "y"}, tmpl: t, site: site, args: [][]string{{ax, ay}, {ay, ax}}, split: split}
							do(k3)
						}
					}
				}
			}
		}
		bounds = append(bounds, fmt.Sprintf("%d templates of size <=2 x %d call-site contexts (top level, function, loop, array/map literal, index/dot base, callee position, operand, another call's or macro's argument, assignment, condition, return, lambda body) x 5x2 arguments x 1-2 uses x same input / split over inputs", len(small), len(c13Sites)-1))
	}
	// F2b: ALL-CAPS parameter names, several uses with different arguments; redefinition of the macro between uses
	if ok {
		small := c13Templates(2)
		for _, t := range small {
			tu := strings.ReplaceAll(strings.ReplaceAll(t, "unquote(x)", "unquote(X)"), "unquote(y)", "unquote(ARG_1)")
			for _, split := range []bool{false, true} {
				do(&c13Case{params: []string{"X", "ARG_1"}, tmpl: tu, site: "%s", args: [][]string{{"1", "v"}, {"a + b", "2"}, {"1", "v"}}, split: split})
			}
			// parameter names that are also names of extension functions, constants, keywords-like builtins or
			// identifiers used by the call sites
			for _, pn := range [][2]string{{"max", "len2"}, {"PI", "sin"}, {"v", "g"}, {"e5", "i"}, {"mm", "m2"}} {
				tn := strings.ReplaceAll(strings.ReplaceAll(t, "unquote(x)", "unquote("+pn[0]+")"), "unquote(y)", "unquote("+pn[1]+")")
				do(&c13Case{params: []string{pn[0], pn[1]}, tmpl: tn, site: "%s", args: [][]string{{"1", "v"}, {"a + b", "2"}}, split: false})
			}
			for _, t2 := range small[:12] {
				if t2 == t {
					continue
				}
				// def t; use; redefine as t2; same call text again
				k1 := &c13Case{params: []string{"x", "y"}, tmpl: t, site: "%s", args: [][]string{{"v", "1"}}, split: true}
				k2 := &c13Case{params: []string{"x", "y"}, tmpl: t2, site: "%s", args: [][]string{{"v", "1"}}, split: true}
				if ok = doRedef(c, k1, k2); !ok {
					break
				}
			}
		}
		bounds = append(bounds, "ALL-CAPS parameter names with three uses; parameters named like extension functions / constants / identifiers of the call site; redefinition of the macro between two identical call texts (all pairs of small templates x 12)")
	}
	// F3: 0..4 parameters, each used 0..3 times
	if ok {
		pnames := []string{"p0", "p1", "p2", "p3"}
		fargs := []string{"1", "v", `println("s")`, "a + b"}
		for kk := 0; kk <= 4; kk++ {
			enumTuples(4, kk, func(uses []int) bool {
				if len(uses) != kk {
					return true
				}
				var holes []string
				for pi, u := range uses {
					for r := 0; r < u; r++ {
						holes = append(holes, "unquote("+pnames[pi]+")")
					}
				}
				forms := []string{"[" + strings.Join(append([]string{"0"}, holes...), ", ") + "]"}
				if len(holes) > 0 {
					forms = append(forms, strings.Join(holes, " + "), "g(["+strings.Join(holes, ", ")+"])")
				}
				for _, form := range forms {
					for shift := 0; shift < len(fargs); shift++ {
						as := make([]string, kk)
						for i := range as {
							as[i] = fargs[(i+shift)%len(fargs)]
						}
						if !do(&c13Case{params: pnames[:kk], tmpl: form, site: "%s", args: [][]string{as, as}}) {
							ok = false
							return false
						}
					}
				}
				return true
			})
		}
		bounds = append(bounds, "macros with 0..4 parameters, every usage vector in {0..3}^k, 3 template shapes, 4 argument rotations, used twice")
	}
	if ok {
		ok = c13Session(c, &bounds)
	}
	c.P.States = c.P.Traces
	c.P.Bound = strings.Join(bounds, "; ")
}

func init() {
	core.Register(&core.Check{
		ID:          "C13",
		Level:       "model_checking",
		Rule:        "macro definitions mm = macro(p..) { quote(T) } with T enumerated exhaustively as syntax trees over holes unquote(p), literals and identifiers; arguments from a 14-element set (literals, identifiers, operators binding looser than the template context, assignments, lambdas, side-effecting calls, i++, arrays, maps, a nested macro call, if, strings); call sites in 19 contexts incl. callee position and other macros' arguments; 1-2 uses; definition and uses in one input or split over the inputs of one session; 0..4 parameters each used 0..3 times. Reference: the harness substitutes the parenthesised argument text into its own rendering of the template. Oracle: canonical dump of State.ExpandMacros(parse(P)) equals the dump of parse(P_subst); expanding the uses a second time gives the same trees (definition unaltered); the expanded tree prints and re-parses to itself; repl.EvalOne of P and of P_subst give identical output, error presence and panic flag (so arguments are evaluated exactly as often and as late as in P_subst). Non-trivial = compared cases; distinct by definition+site+arguments. The session histories are also driven through the repl.Grol Parse/Run API and through repl.EvalOne with token.ResetInterning() between inputs; one input defines and uses a macro at once.",
		Assume:      []string{"canonical dump of internal/obs; textual substitution with parenthesised arguments as the reference"},
		QuickCap:    100 * time.Second,
		ThoroughCap: 20 * time.Minute,
		HangLimit:   240 * time.Second,
		Run:         runC13,
		Replay: func(c *core.Ctx, cs core.Case) *core.Viol {
			if cs.Kind == "session" {
				return c13SessCheck(parseInts(cs.Data))
			}
			var j c13JSON
			if err := json.Unmarshal([]byte(cs.Data), &j); err != nil {
				return &core.Viol{Class: "bad-replay", Detail: err.Error(), Case: cs}
			}
			v := c13One(&c13Case{params: j.Params, tmpl: j.Tmpl, body: j.Body, site: j.Site, args: j.Args, split: j.Split})
			if v != nil && v.Class == "unsupported" {
				return nil
			}
			return v
		},
	})
}
