package checks

import (
	"fmt"
	"os"
	"path/filepath"
	"strings"

	"verif/internal/core"
	"verif/internal/gen"
)

// The source-text corpus shared by C02, C03 and C15 (DESIGN.md §6 C02): every enumerated text is offered to
// the callback; a text is a *case* for those checks iff the parser accepts it.

type corpusOpt struct {
	fullSize    int  // G-syn trees with the full construct set up to this size
	reducedSize int  // G-syn trees with the reduced construct set up to this size
	stmtListSize int // statement lists (<=3 statements) of total size up to this, reduced set
	mutations   int  // number of shipped programs whose byte mutations are included (0 = none)
	examples    bool
}

func corpusOptFor(c *core.Ctx) corpusOpt {
	if c.Quick() {
		return corpusOpt{fullSize: 3, reducedSize: 4, stmtListSize: 4, mutations: 4, examples: true}
	}
	return corpusOpt{fullSize: 4, reducedSize: 5, stmtListSize: 5, mutations: 1000, examples: true}
}

var corpusPolicies = []gen.Policy{{FullParens: false, StmtSep: "\n"}, {FullParens: true, StmtSep: "\n"}}

// families whose texts are valid programs by construction: a parser that rejects one is wrong (for the other
// families a rejected text simply is not a case)
var corpusMustAccept = map[string]bool{"wide": true, "op3": true, "op4": true, "dupkeys": true}

// statement kinds for the adjacency family
var adjStmts = []string{
	"a", "1", ".5", `"s"`, "f(1)", "a[1]", "a.k", "-a", "!a", "++a", "+a", "^a", "a++", "a + b", "a = 1", "[1]", "{1:2}", "x => x", "(x, y) => x", "() => 1",
	"func(x) { x }", "func g(x) { x }", "if a { 1 }", "if a { 1 } else { 2 }", "for a { 1 }", "return", "return 1", "break", "(a)", "(a + b) * c", "len(a)",
	"true", "1e5", "0x1", "e5", "x1", "`r`", "a = [1]", "a = {1:2}", "a = func() { 1 }", "quote(a)", "1.", "0", "0.5", "9", "b1", "_",
	// statements whose printed form starts with a parenthesis the printer adds or keeps
	"(1).k", "(1)[0]", "(x => x)(1)", "(-a).k", "(a + b)[0]", "(99999999999999999999).k", "99999999999999999999", "1..k", "2.5.k", "1e3.k",
}

var corpusLiterals = func() []string {
	out := []string{
		"0", "7", "0x1F", "0b101", "017", "1_000", "0x_f", "9223372036854775807", "9223372036854775808", "99999999999999999999",
		".5", "1.", "1.5", "1e5", "1E-5", "1e+5", "1.5e300", "1e400", "0.1", "1_0.5", "0x1p4", "1e5_0",
		"true", "false", "nil", "NaN", "Inf", "-Inf", "PI",
	}
	// every single-byte string content in both quote styles, and every escape the lexer accepts
	for b := 0; b < 256; b++ {
		if b != '"' && b != '\\' && b != 0 {
			out = append(out, "\""+string([]byte{byte(b)})+"\"")
		}
		if b != '`' && b != 0 {
			out = append(out, "`"+string([]byte{byte(b)})+"`")
		}
		out = append(out, fmt.Sprintf("\"\\x%02x\"", b))
	}
	for _, e := range []string{`\n`, `\r`, `\t`, `\\`, `\"`, `\'`, `\a`, `\0`, `\u00e9`, `\u0007`, `\U0001F600`, `\x41\x42`} {
		out = append(out, `"`+e+`"`, `"a`+e+`b"`)
	}
	// code points at every boundary of the escape forms the printer chooses between (raw, \x, \u, \U), written raw and escaped
	for _, r := range []rune{0x7f, 0x80, 0x9f, 0xa0, 0xad, 0xff, 0x100, 0x7ff, 0x800, 0x2028, 0xd7ff, 0xe000, 0xfeff, 0xfffd, 0xfffe, 0xffff, 0x10000, 0x1f600, 0xe0001, 0xeffff, 0xf0000, 0xffffd, 0xfffff, 0x100000, 0x10fffd, 0x10fffe, 0x10ffff} {
		out = append(out, "\""+string(r)+"\"", "`"+string(r)+"`", "\"a"+string(r)+"b"+string(r)+"\"")
		if r <= 0xffff {
			out = append(out, fmt.Sprintf("\"\\u%04x\"", r))
		}
		out = append(out, fmt.Sprintf("\"\\U%08x\"", r), fmt.Sprintf("\"x\\U%08Xy\"", r))
	}
	sig := []byte{'"', '\\', '\n', '\t', '$', ' ', 'a', 0x7f, 0x80, 0xff, '`', '\''}
	for _, x := range sig {
		for _, y := range sig {
			if x != '`' && y != '`' {
				out = append(out, "`"+string([]byte{x, y})+"`")
			}
			out = append(out, fmt.Sprintf("\"\\x%02x\\x%02x\"", x, y))
		}
	}
	return out
}()

var corpusCommentStmts = []string{"a = 1", "f(2)", "if a { b }", "func g() { 1 }", "[1, 2]", "x"}

// forEachCorpusText enumerates the corpus; f gets the family name and the text. It returns false if stopped.
func forEachCorpusText(c *core.Ctx, opt corpusOpt, f func(family, text string) bool) (bool, []string) {
	var bounds []string
	full, red := gen.FullCfg(), gen.ReducedCfg()
	emit := func(fam, text string) bool {
		if !c.Mine(fam, text) {
			return true
		}
		return f(fam, text)
	}
	emitND := func(fam, text string) bool {
		if !c.MineNoDedup(fam, text) {
			return true
		}
		return f(fam, text)
	}
	stopped := false
	chk := func() bool {
		if c.Expired() {
			stopped = true
			return false
		}
		return true
	}
	// literals
	for _, l := range corpusLiterals {
		for _, ctx := range []string{"%s", "a = %s", "[%s, %s]", "f(%s)", "{%s:%s}", "-%s", "%s + %s", "(%s).k", "(%s)[0]", "(%s)(1)"} {
			if !emit("lit", strings.ReplaceAll(ctx, "%s", l)) {
				return false, bounds
			}
		}
	}
	bounds = append(bounds, fmt.Sprintf("%d literal spellings x 10 contexts", len(corpusLiterals)))
	// statement adjacency: every ordered pair and triple of statement kinds, with each separator, top level and in a function body
	for _, sep := range []string{"\n", "; ", " "} {
		for _, a := range adjStmts {
			for _, b := range adjStmts {
				for _, wrap := range []string{"%s", "func() { %s }", "if x { %s }"} {
					if !emit("adj2", fmt.Sprintf(wrap, a+sep+b)) {
						return false, bounds
					}
				}
			}
		}
	}
	small := adjStmts[:24]
	for _, sep := range []string{"\n", "; "} {
		for _, a := range small {
			for _, b := range small {
				if !chk() {
					return false, bounds
				}
				for _, d := range small {
					if !emit("adj3", a+sep+b+sep+d) {
						return false, bounds
					}
				}
			}
		}
	}
	bounds = append(bounds, fmt.Sprintf("statement adjacency: all ordered pairs of %d statement kinds x 3 separators x 3 contexts, all triples of %d x 2 separators", len(adjStmts), len(small)))
	// comments at every statement boundary of every <=3-statement program over a 6-statement alphabet
	cm := []string{"// c", "/* c */", "/* c\n d */"}
	var rec func(prog []string)
	rec = func(prog []string) {
		if len(prog) > 0 {
			for pos := 0; pos <= len(prog); pos++ {
				for _, cmt := range cm {
					for _, style := range []int{0, 1, 2} { // own line, same line as previous, same line as next
						var sb strings.Builder
						for i, s := range prog {
							if i == pos {
								switch style {
								case 0:
									sb.WriteString(cmt + "\n")
								case 1:
									if strings.HasPrefix(cmt, "//") {
										sb.WriteString(cmt + "\n")
									} else {
										sb.WriteString(cmt + " ")
									}
								case 2:
									sb.WriteString(cmt + "\n")
								}
							}
							sb.WriteString(s)
							if i+1 == pos && style == 1 {
								sb.WriteString(" ")
							} else {
								sb.WriteString("\n")
							}
						}
						if pos == len(prog) {
							sb.WriteString(cmt + "\n")
						}
						emit("cmt", sb.String())
						emit("cmt", "func() {\n"+sb.String()+"}")
					}
				}
			}
		}
		if len(prog) == 3 {
			return
		}
		for _, s := range corpusCommentStmts {
			rec(append(append([]string{}, prog...), s))
		}
	}
	rec(nil)
	// comments inside expressions / blocks
	for _, t := range []string{"a = 1 /* c */ + 2", "f(1, /* c */ 2)", "[1, // c\n2]", "if a { // c\n b }", "if a { b } // c\n else { d }", "func() { /* c */ }", "{1: /* c */ 2}",
		"a = /* c */ 1", "for x { b // c\n }", "// only", "/* only */", "/* a */ /* b */", "a // c1\n// c2\nb", "x = func() { // c\n}", "if a { /* c */ } else { /* d */ }"} {
		emit("cmt", t)
	}
	// comments as first / last / only statement of a block, followed by another statement
	for _, blk := range []string{"func f() { %s }", "if a { %s }", "for a { %s }", "x = func() { %s }", "if a { 1 } else { %s }", "f(func() { %s })", "x => { %s }",
		"if a { %s } else { y }", "if a { %s } else if b { y } else { z }", "if a { 1 } else if b { %s } else { z }", "for a { %s }; for b { y }", "func f() { if a { %s } else { y } }"} {
		for _, in := range []string{"/* c */", "1 /* c */", "// c\n", "1 // c\n", "/* c */ 1", "/* c */\n1", "1\n/* c */", "/* c\n d */", "/* a */ /* b */", "// a\n// b\n",
			// a comment next to the only other statement of the block, for the statements whose printing depends on being alone in a block
			"/* c */ if b { 2 }", "if b { 2 } /* c */", "// c\nif b { 2 }", "if b { 2 } // c\n", "/* c */ if b { 2 } else { /* d */ if e { 3 } }", "/* c */ x => 1", "/* c */ return 1", "/* c */ -1", "/* c */ (1)", "/* c */ [1]", "/* c */ for b { 2 }", "/* c */ func g() { 1 }"} {
			for _, after := range []string{"", "\ng()", " g()", "\n// d\ng()", " /* d */ g()", "\n/* d */\ng()"} {
				emit("cmt", strings.Replace(blk, "%s", in, 1)+after)
			}
		}
	}
	bounds = append(bounds, "comments (line, block, multi-line block) at every boundary of every <=3-statement program over 6 statements, own-line and same-line, top level and in a function body")
	// every construct as parent x every compound construct as child x every child position (two-level trees),
	// children written in parentheses
	{
		children := []string{"[a:]", "[1, a:]", "a[1:][2:]", "x => 1", "(x, y) => 1", "func() { 1 }", "if a { 1 }", "if a { 1 } else { 2 }", "for a { 1 }", "-a", "!a", "++a", "a++", "f(1)", "a[1]", "a.k", "a[1:2]", "a[1:]",
			"[1, 2]", "{1:2}", "len(a)", "quote(a)", "macro(x) { 1 }", "1", "a", `"s"`}
		for _, op := range gen.AllInfix {
			children = append(children, "a "+op+" b")
		}
		parents := []string{"%s", "-%s", "!%s", "++%s", "%s(1)", "f(%s)", "f(1, %s)", "%s[1]", "a[%s]", "a[%s:2]", "a[1:%s]", "a[%s:]", "%s.k", "a.%s", "[%s]", "[1, %s]", "{%s:1}", "{1:%s}", "{1:2, %s:3}",
			"if %s { 1 }", "if a { %s }", "if a { 1 } else { %s }", "for %s { 1 }", "for a { %s }", "return %s", "x => %s", "(x, y) => %s", "func() { %s }", "func f(a) { %s; 1 }", "len(%s)", "println(1, %s)", "quote(%s)", "unquote(%s)",
			"macro(x) { %s }", "x = %s", "x := %s", "a = b = %s", "%s; 1", "1; %s", "del(%s)", "catch(%s)", "error(%s)"}
		for _, op := range gen.AllInfix {
			parents = append(parents, "%s "+op+" c", "c "+op+" %s")
		}
		for _, par := range parents {
			for _, ch := range children {
				for _, wrapped := range []string{"(" + ch + ")", ch} {
					if !emit("two-level", strings.ReplaceAll(par, "%s", wrapped)) {
						return false, bounds
					}
				}
			}
		}
		bounds = append(bounds, fmt.Sprintf("two-level trees: %d parent positions x %d child constructs (parenthesised and bare)", len(parents), len(children)))
	}
	// every kind of token / construct in parameter position (most are rejected: those accepted must round trip)
	{
		forms := []string{"func f(%s) { 1 }", "func(%s) { 1 }", "(%s) => 1", "%s => 1", "macro(%s) { 1 }", "func f(a, %s) { 1 }", "func f(%s, b) { 1 }", "(a, %s) => 1", "func f(a, %s, ..) { 1 }"}
		toks := []string{"a", "1", "1.5", `"s"`, "`r`", "true", "nil", "..", "+", "-", "!", "a.b", "a[1]", "(a)", "f(x)", "-a", "[1]", "{1:2}", "a b", "", "_", "A", "a = 1", "if", "func", "x => x", "/* c */ a", "a // c\n"}
		for _, fm := range forms {
			for _, t := range toks {
				if !emit("params", strings.Replace(fm, "%s", t, 1)) {
					return false, bounds
				}
			}
		}
		bounds = append(bounds, fmt.Sprintf("%d parameter-list forms x %d token kinds in parameter position", len(forms), len(toks)))
	}
	// every triple of infix operators in every grouping of four operands
	{
		shapes := []string{"a %s (b %s c %s d)", "(a %s b %s c) %s d", "a %s (b %s c) %s d", "a %s b %s (c %s d)", "(a %s b) %s (c %s d)", "a %s (b %s (c %s d))", "((a %s b) %s c) %s d", "a %s b %s c %s d"}
		for _, o1 := range gen.AllInfix {
			for _, o2 := range gen.AllInfix {
				if !chk() {
					return false, bounds
				}
				for _, o3 := range gen.AllInfix {
					for _, sh := range shapes {
						if !emit("op3", fmt.Sprintf(sh, o1, o2, o3)) {
							return false, bounds
						}
					}
				}
			}
		}
		bounds = append(bounds, fmt.Sprintf("all %d^3 triples of infix operators x %d groupings of four operands", len(gen.AllInfix), len(shapes)))
	}
	// four operators over a representative of every precedence class, in every grouping of five operands
	{
		reps := []string{"+", "-", "|", "*", "/", "==", "&&", "<"}
		shapes := []string{"a %s (b %s (c %s (d %s e)))", "a %s (b %s ((c %s d) %s e))", "a %s ((b %s c) %s (d %s e))", "a %s ((b %s (c %s d)) %s e)", "a %s (((b %s c) %s d) %s e)",
			"(a %s b) %s (c %s (d %s e))", "(a %s b) %s ((c %s d) %s e)", "(a %s (b %s c)) %s (d %s e)", "((a %s b) %s c) %s (d %s e)", "(a %s (b %s (c %s d))) %s e",
			"(a %s ((b %s c) %s d)) %s e", "((a %s b) %s (c %s d)) %s e", "((a %s (b %s c)) %s d) %s e", "(((a %s b) %s c) %s d) %s e"}
		for _, o1 := range reps {
			for _, o2 := range reps {
				if !chk() {
					return false, bounds
				}
				for _, o3 := range reps {
					for _, o4 := range reps {
						for _, sh := range shapes {
							if !emit("op4", fmt.Sprintf(sh, o1, o2, o3, o4)) {
								return false, bounds
							}
						}
					}
				}
			}
		}
		bounds = append(bounds, fmt.Sprintf("all %d^4 quadruples of representative infix operators x the 14 groupings of five operands", len(reps)))
	}
	// map literals with repeated keys (the printer keeps the written order)
	for _, t := range []string{`m = {1:"a", 2:"b", 1:"c"}`, "{a:1, b:2, a:3, c:4}", `{"k":1, "j":2, "k":3}`, "{1:1, 1:2}", "{1.5:1, 2:2, 1.5:3}", "{[1]:1, 2:2, [1]:3}", "{true:1, false:2, true:3}",
		"{nil:1, 2:2, nil:3}", "{1:1, 2:2, 3:3, 4:4, 5:5, 1:6, 2:7}", "f({1:1, 1:2, 3:3})", "{1:{2:1, 2:2}, 1:{}}"} {
		emit("dupkeys", t)
	}
	// long chains whose leftmost operand is a signed / prefixed operand, under an enclosing operator (compact mode
	// decides about separators from the first byte of the operand)
	for _, n := range []int{1, 10, 63, 64, 65, 100, 300, 1000} {
		for _, link := range []string{"*b", ".b", "[0]", "()", "+b", " && b", "(1)"} {
			for _, head := range []string{"y = x - -a", "y = x + +a", "x - -a", "f(x - -a", "x - !a", "y = x - --a", "[x - -a", "x -\n-a"} {
				t := head + strings.Repeat(link, n)
				switch {
				case strings.HasPrefix(head, "f("):
					t += ")"
				case strings.HasPrefix(head, "["):
					t += "]"
				}
				emit("chains", t)
			}
		}
	}
	// long chains of same-precedence operators with one parenthesised group inside (at the start, the middle, the end)
	for _, n := range []int{5, 63, 64, 65, 199, 200, 201, 202, 250, 1000} {
		for _, ops := range [][2]string{{"+", "-"}, {"+", "|"}, {"+", "^"}, {"-", "+"}, {"*", "/"}, {"*", "%"}, {"&&", "&&"}, {"==", "=="}} {
			chain := strings.Repeat(" "+ops[0]+" t", n)
			group := "(lo " + ops[0] + " hi)"
			for _, t := range []string{"t" + chain + " " + ops[1] + " " + group + " " + ops[0] + " c", group + " " + ops[1] + " t" + chain, "t" + chain[:len(chain)/2] + " " + ops[1] + " " + group + chain[len(chain)/2:],
				"t" + chain + " " + ops[1] + " (lo " + ops[0] + " (hi " + ops[1] + " z))"} {
				emit("chains", t)
			}
		}
	}
	bounds = append(bounds, "repeated-key map literals; 8 signed-operand heads x 7 chain links x lengths 1..1000; chains of 5..1000 same-precedence operators holding one parenthesised group (8 operator pairs x 4 positions)")
	// wide programs: one small construct repeated 12000 times in sequence (counters that must go back down)
	for _, unit := range []string{"if a { 1 } else if b { 2 } else { 3 }\n", "(a)\n", "f(a)\n", "x = [a, [b]]\n", "y = {1: {2: 3}}\n", "z = p => { p }\n", "func g() { if a { 1 } }\n", "a[0][1]\n", "-(-a)\n", "for a { if b { 1 } else if c { 2 } }\n", "/* c */ a\n", "\"s\"\n",
		// every way an expression parser returns: chained and nested lambdas, calls of literals, index / slice / dot chains, assignments, comments
		"f = a => b => a + b\n", "(a, b) => c => d => 1\n", "x = a => (b => b)\n", "g = a => { b => { a } }\n", "a.b.c(d)[e]\n", "[1, 2][0:1]\n", "if a { } else { }\n", "func(a, b) { a }(1, 2)\n", "{\"k\": x => x}\n",
		"-a + !b\n", "a = b = c\n", "// c\n", "\"s\" + `r`\n", "m = macro(x) { quote(unquote(x)) }\n", "x = if a { 1 } else { 2 }\n", "y = for a { break }\n", "a[b][c:d].e\n", "(x => x)(y => y)\n", "f(a => b => c)\n", "x = [a => b, c => d]\n"} {
		emit("wide", strings.Repeat(unit, 12000))
	}
	bounds = append(bounds, "32 constructs each repeated 12000 times in sequence")
	// deeply nested blocks and expressions (counters / indentation of the printer)
	for _, depth := range []int{10, 100, 254, 255, 256, 257, 300, 1000} {
		for _, form := range [][2]string{{"if a { ", " }"}, {"func() { ", " }"}, {"for a { ", " }"}, {"x => { ", " }"}, {"if a { 1 } else { ", " }"}, {"(", ")"}, {"[", "]"}, {"f(", ")"}, {"{1: ", "}"}, {"-", ""}} {
			if !emit("deep", strings.Repeat(form[0], depth)+"b"+strings.Repeat(form[1], depth)) {
				return false, bounds
			}
		}
	}
	bounds = append(bounds, "10 block / expression forms nested 10, 100, 254..257, 300 and 1000 deep")
	// G-syn single statements
	for size := 1; size <= opt.fullSize; size++ {
		ok := full.EnumStmt(size, func(n *gen.N) bool {
			if c.P.Evals&0xfff == 0 && !chk() {
				return false
			}
			for _, pol := range corpusPolicies {
				if !emitND("syn-full", gen.Render([]*gen.N{n}, pol)) {
					return false
				}
			}
			return true
		})
		if !ok {
			return !stopped, bounds
		}
	}
	bounds = append(bounds, fmt.Sprintf("G-syn full construct set: all trees of size <=%d (minimal and fully parenthesised rendering)", opt.fullSize))
	for size := opt.fullSize + 1; size <= opt.reducedSize; size++ {
		ok := red.EnumStmt(size, func(n *gen.N) bool {
			if c.P.Evals&0xfff == 0 && !chk() {
				return false
			}
			for _, pol := range corpusPolicies {
				if !emitND("syn-red", gen.Render([]*gen.N{n}, pol)) {
					return false
				}
			}
			return true
		})
		if !ok {
			return !stopped, bounds
		}
	}
	bounds = append(bounds, fmt.Sprintf("G-syn reduced construct set: all trees of size %d..%d", opt.fullSize+1, opt.reducedSize))
	// statement lists
	for size := 2; size <= opt.stmtListSize; size++ {
		ok := red.EnumStmts(size, 3, func(prog []*gen.N) bool {
			if len(prog) < 2 {
				return true
			}
			if c.P.Evals&0xfff == 0 && !chk() {
				return false
			}
			for _, sep := range []string{"\n", "; ", " "} {
				if !emitND("syn-list", gen.Render(prog, gen.Policy{StmtSep: sep})) {
					return false
				}
			}
			return true
		})
		if !ok {
			return !stopped, bounds
		}
	}
	bounds = append(bounds, fmt.Sprintf("G-syn statement lists (2-3 statements) of total size <=%d x 3 separators", opt.stmtListSize))
	// shipped programs and their byte-level mutations (those that still parse are cases)
	if opt.examples {
		files := exampleFiles()
		for i, fn := range files {
			src, err := os.ReadFile(fn)
			if err != nil {
				continue
			}
			base := filepath.Base(fn)
			if !emit("example", string(src)) {
				return false, bounds
			}
			if i >= opt.mutations {
				continue
			}
			stride := 1
			if len(src) > 1200 {
				stride = len(src) / 1200
			}
			for pos := 0; pos < len(src); pos += stride {
				if !chk() {
					return false, bounds
				}
				m := append(append([]byte{}, src[:pos]...), src[pos+1:]...)
				if !emitND("mut:"+base, string(m)) {
					return false, bounds
				}
				for _, b := range c08MutBytes {
					m = append([]byte{}, src...)
					m[pos] = b
					if !emitND("mut:"+base, string(m)) {
						return false, bounds
					}
					m = append(append(append([]byte{}, src[:pos]...), b), src[pos:]...)
					if !emitND("mut:"+base, string(m)) {
						return false, bounds
					}
				}
			}
		}
		nm := opt.mutations
		if nm > len(files) {
			nm = len(files)
		}
		bounds = append(bounds, fmt.Sprintf("%d shipped programs; every single-byte deletion/substitution/insertion (24-byte set) of %d of them", len(files), nm))
	}
	return true, bounds
}
