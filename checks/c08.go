package checks

import (
	"fmt"
	"fortio.org/log"
	"os"
	"path/filepath"
	"sort"
	"strings"
	"time"

	"verif/internal/core"
	"verif/internal/obs"
)

// C08 — the front end is total on arbitrary bytes.

var c08Tokens = []string{
	"a", "b", "1", "1.5", `"s"`, "`r`", "// c\n", "/* c */",
	"=", "+", "-", "!", "*", "/", "%", "<", ">", "&", "|", "^", "~", ",", ";", "(", ")", "{", "}", "[", "]", ":", ".",
	"<=", ">=", "==", "!=", "++", "--", "..", "||", "&&", "<<", ">>", "=>", ":=",
	"func", "true", "false", "if", "else", "return", "for", "break", "continue", "macro", "quote", "unquote",
	"len", "first", "rest", "print", "println", "log", "error", "catch", "del",
	`"u`, "/* u", "\n", "@", "\x00", "\xff", "1e999", "0x", "//", "\r", "\t", `"\u`, `"\U0001`, `"\x4`, `"\`,
}

// one representative per parse-function / precedence class
var c08Classes = []string{
	"a", "1", `"s"`, "=", "+", "*", "/", "-", "!", "++", "==", "<", "&&", ":", "=>", ".", ",", ";", "(", ")", "{", "}", "[", "]",
	"func", "if", "else", "for", "return", "break", "macro", "len", "quote", "\n", "// c\n", "/* c */", "..", "\r", "//",
}

func c08One(src []byte, lineMode bool, kind string) *core.Viol {
	cfg := "file"
	if lineMode {
		cfg = "line"
	}
	mk := func(class, detail string) *core.Viol {
		return &core.Viol{Class: class, Detail: detail, Case: core.BytesCase(kind, cfg, src)}
	}
	r := parseText(src, lineMode)
	if r.panic != "" {
		return mk(r.panic, "parser panicked")
	}
	if r.prog == nil && len(r.errs) == 0 && !r.cont {
		return mk("no-outcome", "no errors, no continuation request and no tree")
	}
	if r.cont && !lineMode {
		// file mode asks for more input only for an unterminated block comment (documented by TestIncompleteBlockComment)
		if !strings.Contains(string(src), "/*") {
			return mk("continuation-in-file-mode", "file mode requested more input")
		}
	}
	if !r.clean() {
		return nil
	}
	dump := obs.DumpAST(r.prog, obs.DumpOpt{})
	if bad := obs.IllegalNils(dump); len(bad) > 0 {
		return mk("missing-child: "+bad[0], "tree returned without error has a missing child: "+trunc(dump, 300))
	}
	for _, m := range []struct {
		name         string
		compact, all bool
	}{{"normal", false, false}, {"compact", true, false}, {"allparens", true, true}, {"allparens-long", false, true}} {
		if _, pan := printNode(r.prog, m.compact, m.all); pan != "" {
			return mk("print-"+m.name+"-"+pan, "printing the accepted tree panicked")
		}
	}
	return nil
}

func c08Outcome(src []byte, lineMode bool) string {
	r := parseText(src, lineMode)
	switch {
	case r.panic != "":
		return "panic"
	case r.cont && len(r.errs) > 0:
		return "errors+continuation"
	case r.cont:
		return "continuation"
	case len(r.errs) > 0:
		e := r.errs[0]
		if i := strings.IndexByte(e, ':'); i >= 0 {
			e = e[i+1:]
		}
		if i := strings.IndexByte(e, '`'); i >= 0 {
			e = e[:i]
		}
		if len(e) > 40 {
			e = e[:40]
		}
		return "error:" + strings.TrimSpace(e)
	default:
		return fmt.Sprintf("tree(%d stmts)", len(r.prog.Statements))
	}
}

// enumTuples calls f with every tuple of length 0..maxLen over n symbols (shortest first).
func enumTuples(n, maxLen int, f func(idx []int) bool) bool {
	idx := make([]int, maxLen)
	for L := 0; L <= maxLen; L++ {
		for i := 0; i < L; i++ {
			idx[i] = 0
		}
		for {
			if !f(idx[:L]) {
				return false
			}
			i := L - 1
			for i >= 0 {
				idx[i]++
				if idx[i] < n {
					break
				}
				idx[i] = 0
				i--
			}
			if i < 0 {
				break
			}
		}
	}
	return true
}

func c08Do(c *core.Ctx, fam string, in []byte) {
	for _, lm := range []bool{false, true} {
		cs := core.BytesCase(fam, map[bool]string{false: "file", true: "line"}[lm], in)
		c.Current(cs)
		v := c.Run(func() *core.Viol { return c08One(in, lm, fam) })
		out := ""
		if v != nil {
			out = v.Class
		} else if c.P.Evals%7 == 0 { // outcome class costs a second parse: sample it deterministically for the statistic only
			out = c08Outcome(in, lm)
		}
		c.CountNT(fam+": "+printableKey(in), out, len(in) > 0)
	}
}

func c08TokenFamily(c *core.Ctx, fam string, alpha []string, maxLen int, seps []string) bool {
	return enumTuples(len(alpha), maxLen, func(idx []int) bool {
		if c.P.Evals&0x3ff == 0 && c.Expired() {
			return false
		}
		for _, sep := range seps {
			var sb strings.Builder
			for i, x := range idx {
				if i > 0 {
					sb.WriteString(sep)
				}
				sb.WriteString(alpha[x])
			}
			s := sb.String()
			if !c.Mine(fam, s) {
				continue
			}
			c08Do(c, fam, []byte(s))
		}
		return true
	})
}

// Templates: one small valid program per construct, as token lists ("^" glues a token to the previous one: calls,
// indexing and dots need no whitespace). Token-level mutations of these reach error paths deep inside each
// parse function that short token strings cannot.
var c08Templates = []string{
	"a = 1", "a := 1", "a + b * c", "- a", "! a", "a ++", "++ a", "f ^( a , b )", "a ^[ 1 ]", "a ^[ 1 : 2 ]", "a ^[ 1 : ]", "a ^. b", "a ^. b ^. c = 1",
	"[ 1 , 2 ]", "{ 1 : 2 , \"k\" : 3 }", "func ^( a , b ) { a + b }", "func f ^( a ) { return a }", "func ^( a , .. ) { .. }",
	"( a , b ) => a + b", "a => a + 1", "( ) => 1", "( a , b ) => { a }", "a => b => a", "if a { b } else { c }", "if a { b } else if c { d }",
	"for a { b }", "for i = 0 : 3 { break }", "for a = b { continue }", "m = macro ^( x ) { quote ^( unquote ^( x ) ) }",
	"len ^( a )", "println ^( a , b )", "return", "return a", "a && b || c", "a == b", "a <= b", "( a + b ) * c", "\"s\" + `r`",
	"// c\n a", "a /* c */ b", "x = { \"k\" : [ 1 , { 2 : 3 } ] }", "del ^( a ^[ 1 ] )", "f ^( a ) ^( b )", "1 : 2", "quote ^( a + b )",
	"error ^( \"x\" )", "catch ^( a )", "first ^( a ) ; rest ^( a )", "a = b = c", "- ( - a )", "a % b << c >> d & e | f ^ g", "~ a", "a ; b \n c",
	"f ^( ) ^[ 0 ] ^. k", "{ } ; [ ]", "a = ( ) => { }", "if ( a ) { }", "x ^[ - 1 ]", "1.5 + .5", "a ^( b ) ^. c ^( d )",
}

func c08Render(toks []string) string {
	var sb strings.Builder
	for i, t := range toks {
		glue := strings.HasPrefix(t, "^") && len(t) > 1
		if glue {
			t = t[1:]
		}
		if i > 0 && !glue {
			sb.WriteByte(' ')
		}
		sb.WriteString(t)
	}
	return sb.String()
}

// c08Mutants1 calls f with every single token-level mutation of toks.
func c08Mutants1(toks []string, alpha []string, f func(m []string)) {
	n := len(toks)
	for i := 0; i < n; i++ {
		// delete
		m := append(append([]string{}, toks[:i]...), toks[i+1:]...)
		f(m)
		// duplicate
		m = append(append(append([]string{}, toks[:i+1]...), toks[i]), toks[i+1:]...)
		f(m)
		// swap with next
		if i+1 < n {
			m = append([]string{}, toks...)
			m[i], m[i+1] = m[i+1], m[i]
			f(m)
		}
		for _, a := range alpha {
			m = append([]string{}, toks...)
			m[i] = a
			f(m)
			if a == "(" || a == "[" || a == "." {
				m = append([]string{}, toks...)
				m[i] = "^" + a
				f(m)
			}
		}
	}
	for i := 0; i <= n; i++ {
		for _, a := range alpha {
			m := append(append(append([]string{}, toks[:i]...), a), toks[i:]...)
			f(m)
			if a == "(" || a == "[" || a == "." {
				m = append(append(append([]string{}, toks[:i]...), "^"+a), toks[i:]...)
				f(m)
			}
		}
	}
}

func c08TemplateFamily(c *core.Ctx, double bool) bool {
	for _, tpl := range c08Templates {
		toks := strings.Split(tpl, " ")
		if c.Mine("tpl", c08Render(toks)) {
			c08Do(c, "tpl", []byte(c08Render(toks)))
		}
		c08Mutants1(toks, c08Tokens, func(m []string) {
			s := c08Render(m)
			if c.Mine("tpl1", s) {
				c08Do(c, "tpl1", []byte(s))
			}
		})
		if !double {
			continue
		}
		// every pair of token mutations over the class-reduced alphabet
		stop := false
		c08Mutants1(toks, c08Classes, func(m []string) {
			if stop {
				return
			}
			if c.Expired() {
				stop = true
				return
			}
			c08Mutants1(m, c08Classes, func(m2 []string) {
				s2 := c08Render(m2)
				if c.MineNoDedup("tpl2", s2) {
					c08Do(c, "tpl2", []byte(s2))
				}
			})
		})
		if stop {
			return false
		}
	}
	return true
}

// ExampleFiles returns the shipped example/test programs (sorted, smallest first).
func exampleFiles() []string {
	var files []string
	repo := os.Getenv("VERIF_REPO")
	if repo == "" {
		repo = "/repo"
	}
	for _, pat := range []string{repo + "/examples/*.gr", repo + "/tests/*.gr"} {
		m, _ := filepath.Glob(pat)
		files = append(files, m...)
	}
	sort.Slice(files, func(i, j int) bool {
		si, _ := os.Stat(files[i])
		sj, _ := os.Stat(files[j])
		if si.Size() != sj.Size() {
			return si.Size() < sj.Size()
		}
		return files[i] < files[j]
	})
	return files
}

var c08MutBytes = []byte{'\r', '\t', '(', ')', '{', '}', '[', ']', '"', '`', '/', '*', '\n', ' ', '=', ':', ',', ';', '.', '-', '+', '!', '0', 'a', 0, 0xff}

func runC08(c *core.Ctx) {
	var bounds []string
	tokL, clsL, byteL, sigL := 3, 4, 2, 4
	if !c.Quick() {
		tokL, clsL, byteL, sigL = 4, 5, 3, 5
	}
	ok := c08TokenFamily(c, "tok", c08Tokens, tokL, []string{" ", ""})
	if ok {
		bounds = append(bounds, fmt.Sprintf("all strings of <=%d tokens over the %d-symbol full token alphabet (joined by space and by nothing)", tokL, len(c08Tokens)))
		ok = c08TokenFamily(c, "cls", c08Classes, clsL, []string{" "})
	}
	if ok {
		ok = c08TemplateFamily(c, !c.Quick())
		bounds = append(bounds, fmt.Sprintf("every single token mutation (delete, duplicate, swap, replace/insert each of %d tokens) of %d construct templates", len(c08Tokens), len(c08Templates)))
		if !c.Quick() && ok {
			bounds = append(bounds, fmt.Sprintf("every pair of token mutations over the %d-symbol class alphabet of the same templates", len(c08Classes)))
		}
	}
	if ok {
		bounds = append(bounds, fmt.Sprintf("<=%d tokens over the %d-symbol class-reduced alphabet", clsL, len(c08Classes)))
		all := make([]byte, 256)
		for i := range all {
			all[i] = byte(i)
		}
		ok = enumStrings(all, byteL, func(b []byte) bool {
			if c.P.Evals&0x3ff == 0 && c.Expired() {
				return false
			}
			if c.MineNoDedup("bytes", string(b)) {
				c08Do(c, "bytes", append([]byte(nil), b...))
			}
			return true
		})
	}
	if ok {
		bounds = append(bounds, fmt.Sprintf("all byte strings of <=%d bytes over all 256 values", byteL))
		ok = enumStrings(c16Sig, sigL, func(b []byte) bool {
			if c.P.Evals&0x3ff == 0 && c.Expired() {
				return false
			}
			if c.MineNoDedup("sig", string(b)) {
				c08Do(c, "sig", append([]byte(nil), b...))
			}
			return true
		})
	}
	if ok {
		bounds = append(bounds, fmt.Sprintf("<=%d bytes over the 30-byte significant set", sigL))
		// truncations and single-byte mutations of the shipped programs
		files := exampleFiles()
		nfiles := len(files)
		if c.Quick() && nfiles > 12 {
			nfiles = 12
		}
		done := 0
		for _, f := range files[:nfiles] {
			src, err := os.ReadFile(f)
			if err != nil {
				continue
			}
			base := filepath.Base(f)
			if len(src) > 6000 && c.Quick() {
				continue
			}
			for cut := 0; cut <= len(src); cut++ {
				if c.P.Evals&0xff == 0 && c.Expired() {
					ok = false
					break
				}
				if c.MineNoDedup("trunc", fmt.Sprintf("%s@%d", base, cut)) {
					c08Do(c, "trunc:"+base, src[:cut])
				}
			}
			if !ok {
				break
			}
			// every single-byte deletion, and substitution / insertion of each significant byte
			stride := 1
			if len(src) > 1500 {
				stride = len(src) / 1500 // bound the cubic cost on the largest files (stated in the bound)
			}
			for pos := 0; pos < len(src) && ok; pos += stride {
				if c.Expired() {
					ok = false
					break
				}
				if c.MineNoDedup("mut", fmt.Sprintf("%s-del@%d", base, pos)) {
					m := append(append([]byte{}, src[:pos]...), src[pos+1:]...)
					c08Do(c, "mut:"+base, m)
				}
				for _, b := range c08MutBytes {
					if c.MineNoDedup("mut", fmt.Sprintf("%s-sub@%d/%d", base, pos, b)) {
						m := append([]byte{}, src...)
						m[pos] = b
						c08Do(c, "mut:"+base, m)
					}
					if c.MineNoDedup("mut", fmt.Sprintf("%s-ins@%d/%d", base, pos, b)) {
						m := append(append(append([]byte{}, src[:pos]...), b), src[pos:]...)
						c08Do(c, "mut:"+base, m)
					}
				}
			}
			done++
		}
		bounds = append(bounds, fmt.Sprintf("every truncation and every single-byte deletion/substitution/insertion (24-byte set) of %d shipped programs", done))
	}
	if ok {
		// long runs of white space / comments between the tokens of short (mostly erroneous) programs: error
		// messages quote the source around the error position
		progs := []string{"x = ) y", "a + ", "func f(1, ) { }", "( ) z", "x = [1, 2 } y", "if { } else", "a . . b", "func ( ) ) q", "{ 1 : } w", "x => => y", "a = = b", "f ( , ) c", "] x", "1 2 3", "\"s\" \"t\" )", "for { ) }"}
		var gaps []string
		for _, n := range []int{1, 60, 119, 120, 121, 122, 130, 255, 256, 1000, 5000} {
			sp := strings.Repeat(" ", n)
			gaps = append(gaps, sp, strings.Repeat("\n", n), sp+"\n", "\n"+sp, sp+"\n"+sp, strings.Repeat("\t", n)+"\n", "/*"+sp+"*/", "//"+sp+"\n", strings.Repeat("\r\n", n/2+1))
		}
		n := 0
		for _, p := range progs {
			toks := strings.Split(p, " ")
			for pos := 0; pos <= len(toks); pos++ {
				for _, g := range gaps {
					in := strings.Join(toks[:pos], " ") + g + strings.Join(toks[pos:], " ")
					if c.MineNoDedup("gap", in) {
						c08Do(c, "gap", []byte(in))
						n++
					}
				}
			}
		}
		bounds = append(bounds, fmt.Sprintf("%d short erroneous programs x every token gap x %d white-space / comment runs of 1..5000 bytes", len(progs), len(gaps)))
	}
	if ok && !c.Expired() {
		// the log level is configuration: at debug level the lexer and parser format trace messages about what they
		// hold (tokens, partial trees) - on the error paths too
		prev := log.GetLogLevel()
		log.SetLogLevelQuiet(log.Debug)
		n := 0
		for _, tpl := range c08Templates {
			toks := strings.Split(tpl, " ")
			c08Mutants1(toks, c08Tokens, func(m []string) {
				s := c08Render(m)
				if c.Mine("dbg", s) {
					c08Do(c, "dbg", []byte(s))
					n++
				}
			})
		}
		c08TokenFamily(c, "dbgtok", c08Tokens, 2, []string{" "})
		log.SetLogLevelQuiet(prev)
		bounds = append(bounds, fmt.Sprintf("at debug log level: every single token mutation of the %d templates and all strings of <=2 tokens", len(c08Templates)))
	}
	c.P.Bound = strings.Join(bounds, "; ") + "; file and line mode"
}

func init() {
	core.Register(&core.Check{
		ID:          "C08",
		Level:       "exploration",
		Rule:        "byte strings enumerated exhaustively: all strings of <=L tokens over the full token alphabet (one spelling per lexable token kind plus unterminated string/comment, newline, ILLEGAL, NUL, 0xFF), joined by a space and by nothing; <=L+1 tokens over a class-reduced alphabet; all byte strings <=2 (3) over all 256 values; <=4 (5) over the significant byte set; every truncation and single-byte mutation of the shipped examples; each in file and line mode. Oracle under recover: no panic; errors, continuation or a tree; a tree without error/continuation has no missing child (own canonical dump) and prints in normal, compact and all-parens modes without panicking. Non-trivial = non-empty input; distinct by input bytes. A pass at debug log level (trace formatting on the error paths) over the template mutations and 2-token strings.",
		Assume:      []string{"a hang is detected by a watchdog (30 s without progress)"},
		QuickCap:    100 * time.Second,
		ThoroughCap: 20 * time.Minute,
		HangLimit:   240 * time.Second,
		Run:         runC08,
		Replay: func(c *core.Ctx, cs core.Case) *core.Viol {
			return c08One(cs.Bytes(), cs.Cfg == "line", cs.Kind)
		},
	})
}
