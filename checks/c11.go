package checks

import (
	"context"
	"fmt"
	"io"
	"math"
	"strings"
	"time"

	"grol.io/grol/eval"
	"grol.io/grol/lexer"
	"grol.io/grol/object"
	"grol.io/grol/parser"
	"grol.io/grol/repl"
	"verif/internal/core"
	"verif/internal/obs"
	"verif/internal/ref"
)

// C11 — maps behave as finite maps in key order, whatever their history.
//
// Explicit-state search over one real map value: a state is the operation history that
// reaches it (replayed on a fresh object per transition), merged on the key
// "sorted contents + concrete Go type of the value" (so small / large / pointer-to-small
// representations of the same contents are distinct states).

type c11Universe struct {
	name string
	keys []ref.Value
}

var c11U1 = c11Universe{"u1", []ref.Value{ref.Int(1), ref.Int(2), ref.Float(2.5), ref.Str("a"), ref.Bool(true), ref.Nil, ref.Arr(ref.Int(1))}}
var c11U2 = c11Universe{"u2", []ref.Value{ref.Int(-1), ref.Float(1.0), ref.Str(""), ref.Str("b"), ref.Bool(false), ref.Arr(), ref.NewMap(ref.Pair{K: ref.Int(1), V: ref.Int(1)})}}

// u3: container keys whose lengths differ by more than one (three-way comparison results beyond -1/0/1 matter)
var c11U3 = c11Universe{"u3", []ref.Value{ref.Int(1), ref.Str("a"), ref.Arr(), ref.Arr(ref.Int(1), ref.Int(2), ref.Int(3)), ref.Arr(ref.Int(1)),
	ref.NewMap(), ref.NewMap(ref.Pair{K: ref.Int(1), V: ref.Int(1)}, ref.Pair{K: ref.Int(2), V: ref.Int(2)}, ref.Pair{K: ref.Int(3), V: ref.Int(3)})}}

// u4: keys nesting a large array (or equal numbers of different types) inside a small one
var c11U4 = func() c11Universe {
	var nine []ref.Value
	for i := 1; i <= 9; i++ {
		nine = append(nine, ref.Int(int64(i)))
	}
	big := ref.Value{Kind: ref.KArray, A: nine}
	return c11Universe{"u4", []ref.Value{ref.Int(1), ref.Float(1.5), ref.Arr(big), ref.Arr(ref.Str("x"), big), ref.Arr(big, ref.Int(1)), big, ref.Arr(ref.Arr(big))}}
}()

// u5: keys that are equal for the map (one entry) but not the same value: 1 / 1.0, 0 / 0.0 / -0.0 - an update through the
// other spelling keeps the key the entry was inserted under
var c11U5 = c11Universe{"u5", []ref.Value{ref.Int(1), ref.Float(1.0), ref.Float(0.0), ref.Float(math.Copysign(0, -1)), ref.Int(2), ref.Str("a"), ref.Int(0)}}

func c11Univ(name string) *c11Universe {
	switch name {
	case "u5":
		return &c11U5
	case "u4":
		return &c11U4
	case "u3":
		return &c11U3
	case "u1":
		return &c11U1
	case "u2":
		return &c11U2
	}
	return nil
}

// an operation, encoded as a short string so that histories serialise trivially:
//
//	L<k...>       literal construction with keys in that order (value = 1, duplicate keys allowed; later wins)
//	S<k><v>       Set(key k, value v)
//	D<k>          Delete(key k)
//	A<idx>        Append(operand #idx)
//	R             Rest
//	G<l><r>       Range(l, r)
type c11Op string

func c11AppendOperands(u *c11Universe) []ref.Value {
	ops := []ref.Value{ref.NewMap()}
	for _, k := range u.keys {
		ops = append(ops, ref.NewMap(ref.Pair{K: k, V: ref.Int(1)}))
	}
	var five, two []ref.Pair
	for i, k := range u.keys {
		if i < 5 {
			five = append(five, ref.Pair{K: k, V: ref.Int(0)})
		}
		if i >= 5 {
			two = append(two, ref.Pair{K: k, V: ref.Int(0)})
		}
	}
	ops = append(ops, ref.NewMap(five...), ref.NewMap(two...))
	return ops
}

type c11Kept struct {
	impl object.Object
	dump string
	how  string
}

type c11State struct {
	kept  []c11Kept // earlier values of this history that no in-place operation was applied to since: they must stay intact
	u     *c11Universe
	impl  object.Object // object.Map normally; may degrade (nil/Null) after Rest
	model ref.Value
	ok    bool // still a map
}

// apply performs op on both the real map and the model. Returns a violation class if an
// immediate clause (persistence, return flag) fails.
func (s *c11State) apply(op c11Op, operands []ref.Value) (string, string) {
	switch op[0] {
	case 'A', 'R', 'G':
		// Append, Rest and Range build new maps: every map obtained earlier in this history (they may share storage)
		// must be left as it was
		if _, ok := s.impl.(object.Map); ok {
			s.kept = append(s.kept, c11Kept{s.impl, obs.DumpValue(s.impl), string(op)})
		}
	default:
		s.kept = nil // Set / Delete on a large map work in place by contract: whatever shares its storage may change
	}
	cl, det := s.apply1(op, operands)
	if cl == "" {
		for _, k := range s.kept {
			if d := obs.DumpValue(k.impl); d != k.dump {
				return "earlier-value-changed", fmt.Sprintf("the map that %s was applied to was %s and is now %s (after %s)", k.how, k.dump, d, op)
			}
		}
	}
	return cl, det
}

func (s *c11State) apply1(op c11Op, operands []ref.Value) (string, string) {
	u := s.u
	switch op[0] {
	case 'L':
		n := len(op) - 1
		m := object.NewMapSize(n)
		mod := ref.NewMap()
		for _, ch := range op[1:] {
			k := u.keys[ch-'0']
			m = m.Set(obs.ToObject(k), object.Integer{Value: 1})
			mod = ref.MapSet(mod, k, ref.Int(1))
		}
		s.impl, s.model = m, mod
	case 'S':
		k := u.keys[op[1]-'0']
		v := int64(op[2] - '0')
		s.impl = s.impl.(object.Map).Set(obs.ToObject(k), object.Integer{Value: v})
		s.model = ref.MapSet(s.model, k, ref.Int(v))
	case 'D':
		k := u.keys[op[1]-'0']
		nm, changed := s.impl.(object.Map).Delete(obs.ToObject(k))
		mod, found := ref.MapDelete(s.model, k)
		s.impl, s.model = nm, mod
		if changed != found {
			return "delete-flag", fmt.Sprintf("Delete(%s) reported changed=%v, reference %v", ref.Inspect(k), changed, found)
		}
	case 'A':
		right := operands[op[1]-'a']
		robj := obs.ToObject(right).(object.Map)
		before := obs.DumpValue(s.impl)
		rbefore := obs.DumpValue(robj)
		res := s.impl.(object.Map).Append(robj)
		if obs.DumpValue(s.impl) != before {
			return "append-mutates-left", fmt.Sprintf("left operand changed from %s to %s", before, obs.DumpValue(s.impl))
		}
		if obs.DumpValue(robj) != rbefore {
			return "append-mutates-right", fmt.Sprintf("right operand changed from %s to %s", rbefore, obs.DumpValue(robj))
		}
		s.impl = res
		s.model = ref.MapAppend(s.model, right)
	case 'R':
		before := obs.DumpValue(s.impl)
		res := object.Rest(s.impl)
		if obs.DumpValue(s.impl) != before {
			return "rest-mutates", "operand changed by Rest"
		}
		if len(s.model.M) <= 1 {
			// documented: rest of a map with <=1 entries is nil
			if res.Type() != object.NIL {
				return "rest-small", fmt.Sprintf("Rest of %d-entry map returned %s", len(s.model.M), res.Inspect())
			}
			s.impl, s.model = object.NewMap(), ref.NewMap()
			return "", ""
		}
		s.impl = res
		s.model = ref.Value{Kind: ref.KMap, M: append([]ref.Pair{}, s.model.M[1:]...)}
	case 'G':
		l, r := int64(op[1]-'0'), int64(op[2]-'0')
		before := obs.DumpValue(s.impl)
		res := object.Range(s.impl, l, r)
		if obs.DumpValue(s.impl) != before {
			return "range-mutates", "operand changed by Range"
		}
		s.impl = res
		s.model = ref.Value{Kind: ref.KMap, M: append([]ref.Pair{}, s.model.M[l:r]...)}
	}
	if _, ok := s.impl.(object.Map); !ok {
		return "not-a-map", fmt.Sprintf("operation %s produced %T %s, reference %s", op, s.impl, s.impl.Inspect(), ref.Inspect(s.model))
	}
	return "", ""
}

func c11Replay(u *c11Universe, hist []c11Op, operands []ref.Value) (*c11State, string, string) {
	s := &c11State{u: u, impl: object.NewMap(), model: ref.NewMap()}
	for _, op := range hist {
		if cl, det := s.apply(op, operands); cl != "" {
			return s, cl, det + " at op " + string(op)
		}
	}
	return s, "", ""
}

func c11Key(s *c11State) string {
	return fmt.Sprintf("%T|%s", s.impl, ref.Dump(s.model))
}

// c11Oracle compares every observation of the real map with the model.
func c11Oracle(s *c11State) (string, string) {
	m := s.impl.(object.Map)
	mod := s.model
	if m.Len() != len(mod.M) {
		return "len", fmt.Sprintf("Len=%d reference %d", m.Len(), len(mod.M))
	}
	if object.Len(m) != len(mod.M) {
		return "len", fmt.Sprintf("object.Len=%d reference %d", object.Len(m), len(mod.M))
	}
	for _, k := range append(append([]ref.Value{}, s.u.keys...), ref.Str("absent"), ref.Int(77)) {
		got, found := m.Get(obs.ToObject(k))
		want, wfound := ref.MapGet(mod, k)
		if found != wfound {
			return "get-found", fmt.Sprintf("Get(%s) found=%v reference %v", ref.Inspect(k), found, wfound)
		}
		if found && obs.DumpValue(got) != ref.Dump(want) {
			return "get-value", fmt.Sprintf("Get(%s)=%s reference %s", ref.Inspect(k), obs.DumpValue(got), ref.Dump(want))
		}
		if !found && got.Type() != object.NIL {
			return "get-absent", fmt.Sprintf("Get(%s) absent but returned %s", ref.Inspect(k), got.Inspect())
		}
	}
	if got, want := m.Inspect(), ref.Inspect(mod); got != want {
		return "inspect", fmt.Sprintf("Inspect=%s reference %s", got, want)
	}
	// iteration by First/Rest down to empty
	observe("map", fmt.Sprintf("%T", m), ref.Dump(mod))
	if got, want := obs.DumpValue(m), ref.Dump(mod); got != want {
		return "iteration", fmt.Sprintf("First/Rest iteration %s reference %s", got, want)
	}
	// Elements (keys) in order
	els := object.Elements(m)
	if len(els) != len(mod.M) {
		return "elements", fmt.Sprintf("Elements has %d keys, reference %d", len(els), len(mod.M))
	}
	for i, e := range els {
		if obs.DumpValue(e) != ref.Dump(mod.M[i].K) {
			return "elements", fmt.Sprintf("Elements[%d]=%s reference %s", i, obs.DumpValue(e), ref.Dump(mod.M[i].K))
		}
	}
	// equality with a freshly built map of the same contents, in sorted and reverse insertion order
	fresh := object.NewMapSize(len(mod.M))
	for _, p := range mod.M {
		fresh = fresh.Set(obs.ToObject(p.K), obs.ToObject(p.V))
	}
	rev := object.NewMap()
	for i := len(mod.M) - 1; i >= 0; i-- {
		rev = rev.Set(obs.ToObject(mod.M[i].K), obs.ToObject(mod.M[i].V))
	}
	for _, o := range []object.Map{fresh, rev} {
		if !object.Equals(m, o) || object.Cmp(m, o) != 0 || !object.Equals(o, m) || object.Cmp(o, m) != 0 {
			return "equality", fmt.Sprintf("map %s (%T) not equal to freshly built %s (%T)", m.Inspect(), m, o.Inspect(), o)
		}
	}
	// neighbours differing in one pair compare unequal
	for i, p := range mod.M {
		nb := object.NewMap()
		for j, q := range mod.M {
			v := obs.ToObject(q.V)
			if i == j {
				v = object.Integer{Value: 9}
			}
			nb = nb.Set(obs.ToObject(q.K), v)
		}
		if object.Equals(m, nb) || object.Cmp(m, nb) == 0 {
			return "equality-neighbour", fmt.Sprintf("map %s equal to %s (differs at %s)", m.Inspect(), nb.Inspect(), ref.Inspect(p.K))
		}
	}
	// First must not change the map; hashability must not depend on representation for small contents
	return "", ""
}

func c11Lits(u *c11Universe) []c11Op {
	var out []c11Op
	n := len(u.keys)
	// every ordered selection of <=3 distinct keys
	var rec func(cur string, used int)
	rec = func(cur string, used int) {
		if len(cur) > 0 {
			out = append(out, c11Op("L"+cur))
		}
		if len(cur) == 3 {
			return
		}
		for i := 0; i < n; i++ {
			if used&(1<<i) == 0 {
				rec(cur+string(rune('0'+i)), used|1<<i)
			}
		}
	}
	rec("", 0)
	out = append(out, "L")
	// larger subsets: sorted and reverse-sorted (by universe index, which is the language order for u1)
	for mask := 0; mask < 1<<n; mask++ {
		if popcount(uint64(mask)) < 4 {
			continue
		}
		fw, bw := "", ""
		for i := 0; i < n; i++ {
			if mask&(1<<i) != 0 {
				fw += string(rune('0' + i))
				bw = string(rune('0'+i)) + bw
			}
		}
		out = append(out, c11Op("L"+fw), c11Op("L"+bw))
	}
	// duplicate keys inside a literal
	out = append(out, "L00", "L010", "L01230", "L012340")
	return out
}

func c11Succ(s *c11State, nOperands int) []c11Op {
	var out []c11Op
	n := len(s.u.keys)
	for k := 0; k < n; k++ {
		out = append(out, c11Op(fmt.Sprintf("S%d0", k)), c11Op(fmt.Sprintf("S%d1", k)))
	}
	for k := 0; k < n; k++ {
		out = append(out, c11Op(fmt.Sprintf("D%d", k)))
	}
	for i := 0; i < nOperands; i++ {
		out = append(out, c11Op("A"+string(rune('a'+i))))
	}
	out = append(out, "R")
	ln := len(s.model.M)
	for l := 0; l <= ln; l++ {
		for r := l; r <= ln; r++ {
			out = append(out, c11Op(fmt.Sprintf("G%d%d", l, r)))
		}
	}
	return out
}

func c11HistStr(h []c11Op) string {
	parts := make([]string, len(h))
	for i, o := range h {
		parts[i] = string(o)
	}
	return strings.Join(parts, " ")
}

func c11Describe(u *c11Universe, h []c11Op, operands []ref.Value) string {
	var parts []string
	for _, op := range h {
		switch op[0] {
		case 'L':
			var ks []string
			for _, ch := range op[1:] {
				ks = append(ks, ref.Inspect(u.keys[ch-'0'])+":1")
			}
			parts = append(parts, "{"+strings.Join(ks, ",")+"}")
		case 'S':
			parts = append(parts, fmt.Sprintf("Set(%s,%c)", ref.Inspect(u.keys[op[1]-'0']), op[2]))
		case 'D':
			parts = append(parts, fmt.Sprintf("Delete(%s)", ref.Inspect(u.keys[op[1]-'0'])))
		case 'A':
			parts = append(parts, "Append("+ref.Inspect(operands[op[1]-'a'])+")")
		case 'R':
			parts = append(parts, "Rest")
		case 'G':
			parts = append(parts, fmt.Sprintf("Range(%c,%c)", op[1], op[2]))
		}
	}
	return strings.Join(parts, " . ")
}

func c11CheckHist(c *core.Ctx, u *c11Universe, operands []ref.Value, hist []c11Op, doOracle bool) (*core.Viol, string, *c11State) {
	var key string
	var st *c11State
	c.Current(core.Case{Kind: "api", Cfg: u.name, Data: c11HistStr(hist)})
	v := c.Run(func() *core.Viol {
		s, cl, det := c11Replay(u, hist, operands)
		st = s
		if cl == "" {
			key = c11Key(s)
			if doOracle {
				cl, det = c11Oracle(s)
			}
		}
		if cl == "" {
			return nil
		}
		return &core.Viol{Class: cl, Detail: det + " after " + c11Describe(u, hist, operands), Case: core.Case{Kind: "api", Cfg: u.name, Data: c11HistStr(hist)},
			FindText: c11Describe(u, hist, operands)}
	})
	return v, key, st
}

func c11BFS(c *core.Ctx, u *c11Universe) (states int, depth int) {
	operands := c11AppendOperands(u)
	seen := map[string]bool{}
	type node struct{ hist []c11Op }
	var frontier []node
	visit := func(hist []c11Op) {
		// every worker discovers the same graph; the oracle for a transition is evaluated by the worker owning it
		mine := c.MineNoDedup("api-"+u.name, c11HistStr(hist))
		v, key, st := c11CheckHist(c, u, operands, hist, mine)
		if mine {
			c.P.Transitions++
			out := "ok"
			if st != nil && st.impl != nil {
				out = fmt.Sprintf("%T/len%d", st.impl, len(st.model.M))
			}
			if v != nil {
				out = v.Class
			}
			c.CountNT("api["+u.name+"]: "+c11Describe(u, hist, operands), out, len(hist) > 0)
		}
		if v != nil || key == "" {
			return
		}
		if !seen[key] {
			seen[key] = true
			frontier = append(frontier, node{hist})
			if len(hist) > depth {
				depth = len(hist)
			}
		}
	}
	visit(nil)
	for _, l := range c11Lits(u) {
		visit([]c11Op{l})
	}
	for len(frontier) > 0 {
		if c.Expired() {
			break
		}
		cur := frontier[0]
		frontier = frontier[1:]
		s, _, _ := c11Replay(u, cur.hist, operands)
		for _, op := range c11Succ(s, len(operands)) {
			nh := append(append([]c11Op{}, cur.hist...), op)
			visit(nh)
		}
	}
	return len(seen), depth
}

// ---------------- source level ----------------

var c11Opts = repl.Options{All: true, ShowEval: true, NoColor: true}

func evalSrc(s *eval.State, src string) (object.Object, string) {
	l := lexer.New(src)
	p := parser.New(l)
	prog := p.ParseProgram()
	if len(p.Errors()) > 0 {
		return nil, "parse error: " + strings.Join(p.Errors(), "; ")
	}
	var res object.Object
	func() {
		defer func() {
			if r := recover(); r != nil {
				res = object.Error{Value: fmt.Sprintf("panic: %v", r)}
			}
		}()
		res = s.EvalToplevel(prog)
	}()
	return res, ""
}

// source-level operation alphabet on variable m; model transition alongside.
type c11SrcOp struct {
	src   string
	apply func(m ref.Value) (ref.Value, bool) // false: op not applicable in this state (skip)
}

func c11SrcOps(u *c11Universe) []c11SrcOp {
	var ops []c11SrcOp
	ks := u.keys
	for _, n := range []int{0, 1, 3, 4, 5, 6, 7} {
		// literal with n keys in reverse order
		var parts []string
		mod := ref.NewMap()
		for i := n - 1; i >= 0; i-- {
			parts = append(parts, ref.Source(ks[i])+":"+fmt.Sprint(i))
			mod = ref.MapSet(mod, ks[i], ref.Int(int64(i)))
		}
		m2 := mod
		ops = append(ops, c11SrcOp{"m = {" + strings.Join(parts, ", ") + "}", func(ref.Value) (ref.Value, bool) { return m2, true }})
	}
	for i, k := range ks {
		k := k
		if i%2 == 0 || i == 1 {
			ops = append(ops, c11SrcOp{"m[" + ref.Source(k) + "] = 7", func(m ref.Value) (ref.Value, bool) { return ref.MapSet(m, k, ref.Int(7)), true }})
			ops = append(ops, c11SrcOp{"del(m[" + ref.Source(k) + "])", func(m ref.Value) (ref.Value, bool) { r, _ := ref.MapDelete(m, k); return r, true }})
		}
	}
	// keys given through a variable of an outer scope, a parameter or a loop variable, which changes afterwards:
	// the entry keeps the key it was inserted under
	src := func(i int) string { return ref.Source(ks[i%len(ks)]) }
	key := func(i int) ref.Value { return ks[i%len(ks)] }
	ops = append(ops, c11SrcOp{"kv = " + src(2) + "; func ins() { m[kv] = 6 }; ins(); kv = " + src(4), func(m ref.Value) (ref.Value, bool) { return ref.MapSet(m, key(2), ref.Int(6)), true }})
	ops = append(ops, c11SrcOp{"kv = " + src(0) + "; func() { func() { m[kv] = 5; kv = " + src(3) + " }() }()", func(m ref.Value) (ref.Value, bool) { return ref.MapSet(m, key(0), ref.Int(5)), true }})
	ops = append(ops, c11SrcOp{"insp = func(kp) { m[kp] = 4 }; insp(" + src(6) + "); insp = 0", func(m ref.Value) (ref.Value, bool) { return ref.MapSet(m, key(6), ref.Int(4)), true }})
	ops = append(ops, c11SrcOp{"kv = " + src(2) + "; dl = () => del(m[kv]); dl(); kv = " + src(0), func(m ref.Value) (ref.Value, bool) { r, _ := ref.MapDelete(m, key(2)); return r, true }})
	ops = append(ops, c11SrcOp{"kv = " + src(5) + "; func() { m = m + {kv: 3}; kv = " + src(1) + " }()", func(m ref.Value) (ref.Value, bool) { return ref.MapSet(m, key(5), ref.Int(3)), true }})
	ops = append(ops, c11SrcOp{"m = m + {}", func(m ref.Value) (ref.Value, bool) { return m, true }})
	two := ref.NewMap(ref.Pair{K: ks[1], V: ref.Int(8)}, ref.Pair{K: ks[5], V: ref.Int(8)})
	ops = append(ops, c11SrcOp{"m = m + " + ref.Source(two), func(m ref.Value) (ref.Value, bool) { return ref.MapAppend(m, two), true }})
	var fivep []ref.Pair
	for i := 0; i < 5; i++ {
		fivep = append(fivep, ref.Pair{K: ks[i], V: ref.Int(9)})
	}
	five := ref.NewMap(fivep...)
	ops = append(ops, c11SrcOp{"m = m + " + ref.Source(five), func(m ref.Value) (ref.Value, bool) { return ref.MapAppend(m, five), true }})
	ops = append(ops, c11SrcOp{"m = " + ref.Source(five) + " + m", func(m ref.Value) (ref.Value, bool) { return ref.MapAppend(five, m), true }})
	ops = append(ops, c11SrcOp{"m = rest(m)", func(m ref.Value) (ref.Value, bool) {
		if len(m.M) < 2 {
			return m, false // rest of a <=1 entry map is nil by definition: m stops being a map
		}
		return ref.Value{Kind: ref.KMap, M: append([]ref.Pair{}, m.M[1:]...)}, true
	}})
	ops = append(ops, c11SrcOp{"m = m[1:]", func(m ref.Value) (ref.Value, bool) {
		if len(m.M) < 1 {
			return m, false
		}
		return ref.Value{Kind: ref.KMap, M: append([]ref.Pair{}, m.M[1:]...)}, true
	}})
	ops = append(ops, c11SrcOp{"m = m[0:-1]", func(m ref.Value) (ref.Value, bool) {
		if len(m.M) < 1 {
			return m, false
		}
		return ref.Value{Kind: ref.KMap, M: append([]ref.Pair{}, m.M[:len(m.M)-1]...)}, true
	}})
	ops = append(ops, c11SrcOp{"m = m[1:3]", func(m ref.Value) (ref.Value, bool) {
		if len(m.M) < 3 {
			return m, false
		}
		return ref.Value{Kind: ref.KMap, M: append([]ref.Pair{}, m.M[1:3]...)}, true
	}})
	return ops
}

// c11SrcRun replays a source-level history on a fresh session and compares all observations after the last op.
func c11SrcRun(u *c11Universe, ops []c11SrcOp, hist []int) (cl, det, key string, skip bool) {
	s := eval.NewState()
	var out strings.Builder
	s.Out = &out
	s.LogOut = io.Discard
	mod := ref.NewMap()
	run := func(src string) (object.Object, []string) {
		out.Reset()
		_, _, errs, _ := repl.EvalOne(context.Background(), s, src, io.Discard, c11Opts)
		res, _ := evalSrc(s, "m")
		return res, errs
	}
	if _, errs := run("m = {}"); len(errs) > 0 {
		return "src-error", fmt.Sprint(errs), "", false
	}
	for _, h := range hist {
		op := ops[h]
		nm, ok := op.apply(mod)
		if !ok {
			return "", "", "", true
		}
		mod = nm
		if _, errs := run(op.src); len(errs) > 0 {
			return "src-op-error", fmt.Sprintf("%q failed: %v (model %s)", op.src, errs, ref.Inspect(mod)), "", false
		}
	}
	// observations through source
	obsv := func(src string) (string, string) {
		out.Reset()
		_, _, errs, _ := repl.EvalOne(context.Background(), s, src, &out, c11Opts)
		if len(errs) > 0 {
			return "", "ERR " + strings.Join(errs, ";")
		}
		return out.String(), ""
	}
	mval, _ := evalSrc(s, "m")
	key = fmt.Sprintf("%T|%s", mval, ref.Dump(mod))
	if got, e := obsv("len(m)"); e != "" || strings.TrimSpace(got) != fmt.Sprint(len(mod.M)) {
		return "src-len", fmt.Sprintf("len(m)=%q %s reference %d", got, e, len(mod.M)), key, false
	}
	if got, e := obsv("println(m)"); e != "" || strings.TrimSpace(got) != ref.Inspect(mod) {
		return "src-print", fmt.Sprintf("println(m)=%q %s reference %s", got, e, ref.Inspect(mod)), key, false
	}
	for _, k := range u.keys {
		want, _ := ref.MapGet(mod, k)
		if got, e := obsv("println(m[" + ref.Source(k) + "])"); e != "" || strings.TrimSpace(got) != ref.Inspect(want) {
			return "src-lookup", fmt.Sprintf("m[%s]=%q %s reference %s", ref.Source(k), got, e, ref.Inspect(want)), key, false
		}
	}
	// iteration
	var want strings.Builder
	for _, p := range mod.M {
		want.WriteString(ref.Inspect(p.K) + " " + ref.Inspect(p.V) + "\n")
	}
	if got, e := obsv("for kv = m { println(kv.key, kv.value) }"); e != "" || !sameLinesInspect(got, want.String()) {
		return "src-iteration", fmt.Sprintf("for kv = m printed %q %s reference %q", got, e, want.String()), key, false
	}
	// first/rest iteration
	if got, e := obsv("func it(x){ if len(x)==0 {return nil}; println(first(x).key, first(x).value); it(rest(x)) }; it(m)"); e != "" || !sameLinesInspect(got, want.String()) {
		return "src-first-rest", fmt.Sprintf("first/rest walk printed %q %s reference %q", got, e, want.String()), key, false
	}
	if got, e := obsv("m == " + ref.Source(mod)); e != "" || strings.TrimSpace(got) != "true" {
		return "src-equal", fmt.Sprintf("m == %s gave %q %s", ref.Source(mod), got, e), key, false
	}
	// keys() (grol-defined, uses first/rest recursion)
	var kk []string
	for _, p := range mod.M {
		kk = append(kk, ref.Inspect(p.K))
	}
	if got, e := obsv("println(keys(m))"); e != "" || strings.TrimSpace(got) != "["+strings.Join(kk, ",")+"]" {
		return "src-keys", fmt.Sprintf("keys(m)=%q %s reference [%s]", got, e, strings.Join(kk, ",")), key, false
	}
	return "", "", key, false
}

// println prints strings raw, so compare after mapping reference string keys the same way.
func sameLinesInspect(got, want string) bool {
	if got == want {
		return true
	}
	// the reference wrote keys with Inspect (quoted strings); println prints strings raw.
	g := strings.Split(got, "\n")
	w := strings.Split(want, "\n")
	if len(g) != len(w) {
		return false
	}
	for i := range g {
		if g[i] == w[i] {
			continue
		}
		// unquote a leading quoted string in the reference line
		if strings.HasPrefix(w[i], "\"") {
			end := strings.LastIndex(w[i], "\" ")
			if end > 0 {
				if g[i] == w[i][1:end]+w[i][end+1:] {
					continue
				}
			}
		}
		return false
	}
	return true
}

func c11SrcExplore(c *core.Ctx, u *c11Universe, depth int) int {
	ops := c11SrcOps(u)
	seen := map[string]bool{}
	var rec func(hist []int)
	rec = func(hist []int) {
		if c.Expired() {
			return
		}
		idx := make([]string, len(hist))
		var srcs []string
		for i, h := range hist {
			idx[i] = fmt.Sprint(h)
			srcs = append(srcs, ops[h].src)
		}
		text := strings.Join(srcs, "; ")
		if c.MineNoDedup("src-"+u.name, strings.Join(idx, ",")) {
			var key string
			var skip bool
			v := c.Run(func() *core.Viol {
				cl, det, k, sk := c11SrcRun(u, ops, hist)
				key, skip = k, sk
				if cl == "" {
					return nil
				}
				return &core.Viol{Class: cl, Detail: det + " after: " + text, Case: core.Case{Kind: "src", Cfg: u.name, Data: strings.Join(idx, ",")}, FindText: text}
			})
			if !skip {
				out := "src-ok"
				if v != nil {
					out = v.Class
				}
				c.CountNT("src["+u.name+"]: "+text, out, len(hist) > 0)
				c.P.Traces++
				if key != "" {
					seen[key] = true
				}
			}
		}
		if len(hist) == depth {
			return
		}
		for i := range ops {
			// prune histories whose prefix is inapplicable
			nh := append(append([]int{}, hist...), i)
			mod := ref.NewMap()
			okAll := true
			for _, h := range nh {
				var ok bool
				mod, ok = ops[h].apply(mod)
				if !ok {
					okAll = false
					break
				}
			}
			if okAll {
				rec(nh)
			}
		}
	}
	rec(nil)
	return len(seen)
}

// c11Alias explores, WITHOUT merging states, every history of <=depth operations starting from the large literals:
// sharing of storage between a map and the maps derived from it is not part of the BFS state key.
func c11Alias(c *core.Ctx, u *c11Universe, depth int) int {
	operands := c11AppendOperands(u)
	n := len(u.keys)
	var ops []c11Op
	for l := 0; l <= n; l++ {
		for r := l; r <= n; r++ {
			ops = append(ops, c11Op(fmt.Sprintf("G%d%d", l, r)))
		}
	}
	ops = append(ops, "R")
	for i := range operands {
		ops = append(ops, c11Op("A"+string(rune('a'+i))))
	}
	for i := 0; i < n; i++ {
		ops = append(ops, c11Op(fmt.Sprintf("S%d7", i)), c11Op(fmt.Sprintf("D%d", i)))
	}
	var lits []c11Op
	all := ""
	for i := 0; i < n; i++ {
		all += string(rune('0' + i))
	}
	lits = append(lits, c11Op("L"+all), c11Op("L"+all[:n-1]), c11Op("L"+all[:5]), c11Op("L"+all[1:]))
	if c.Quick() && u.name != "u1" {
		lits = lits[:1]
	}
	count := 0
	for _, lit := range lits {
		enumTuples(len(ops), depth, func(idx []int) bool {
			if len(idx) == 0 {
				return true
			}
			if c.P.Evals&0xfff == 0 && c.Expired() {
				return false
			}
			hist := []c11Op{lit}
			for _, x := range idx {
				hist = append(hist, ops[x])
			}
			// Range bounds must fit the current length: invalid histories are skipped by the model
			key := c11HistStr(hist)
			if !c.MineNoDedup("alias-"+u.name, key) {
				return true
			}
			if !c11Valid(u, hist, operands) {
				return true
			}
			v, _, _ := c11CheckHist(c, u, operands, hist, len(idx) == depth)
			out := "alias-ok"
			if v != nil {
				out = v.Class
			}
			c.CountNT("alias["+u.name+"]: "+c11Describe(u, hist, operands), out, true)
			c.P.Transitions++
			count++
			return true
		})
	}
	return count
}

// c11Valid replays the history on the model only: Range bounds within the length.
func c11Valid(u *c11Universe, hist []c11Op, operands []ref.Value) bool {
	m := ref.NewMap()
	for _, op := range hist {
		switch op[0] {
		case 'L':
			m = ref.NewMap()
			for _, ch := range op[1:] {
				m = ref.MapSet(m, u.keys[ch-'0'], ref.Int(1))
			}
		case 'S':
			m = ref.MapSet(m, u.keys[op[1]-'0'], ref.Int(int64(op[2]-'0')))
		case 'D':
			m, _ = ref.MapDelete(m, u.keys[op[1]-'0'])
		case 'A':
			m = ref.MapAppend(m, operands[op[1]-'a'])
		case 'R':
			if len(m.M) <= 1 {
				m = ref.NewMap()
			} else {
				m = ref.Value{Kind: ref.KMap, M: append([]ref.Pair{}, m.M[1:]...)}
			}
		case 'G':
			l, r := int(op[1]-'0'), int(op[2]-'0')
			if r > len(m.M) || l > r {
				return false
			}
			m = ref.Value{Kind: ref.KMap, M: append([]ref.Pair{}, m.M[l:r]...)}
		}
	}
	return true
}

// c11Merge: Append / + of maps of sizes on both sides of every internal threshold whose common keys are equal but not
// identical (1 and 1.0, 0 and -0.0): the result must not depend on the operand sizes.
func c11Merge(c *core.Ctx) int {
	sizes := []int{0, 1, 3, 4, 5, 8, 15, 16, 17, 33, 64, 100}
	n := 0
	for _, ls := range sizes {
		for _, rs := range sizes {
			for _, variant := range []string{"int+float", "float+int", "offset", "negzero"} {
				key := fmt.Sprintf("merge|%d|%d|%s", ls, rs, variant)
				if !c.MineNoDedup("merge", key) {
					continue
				}
				n++
				lk := func(i int) ref.Value { return ref.Int(int64(i)) }
				rk := func(i int) ref.Value { return ref.Float(float64(i)) }
				switch variant {
				case "float+int":
					lk, rk = rk, lk
				case "offset": // right keys start in the middle of the left ones
					rk = func(i int) ref.Value { return ref.Float(float64(i + ls/2)) }
				case "negzero":
					lk = func(i int) ref.Value {
						if i == 0 {
							return ref.Float(math.Copysign(0, -1))
						}
						return ref.Int(int64(i))
					}
				}
				lm, rm := ref.NewMap(), ref.NewMap()
				for i := 0; i < ls; i++ {
					lm = ref.MapSet(lm, lk(i), ref.Str("l"))
				}
				for i := 0; i < rs; i++ {
					rm = ref.MapSet(rm, rk(i), ref.Str("r"))
				}
				want := ref.Dump(ref.MapAppend(lm, rm))
				cs := core.Case{Kind: "merge", Data: key}
				c.Current(cs)
				v := c.Run(func() *core.Viol {
					lo, ro := obs.ToObject(lm).(object.Map), obs.ToObject(rm).(object.Map)
					lb, rb := obs.DumpValue(lo), obs.DumpValue(ro)
					if got := obs.DumpValue(lo.Append(ro)); got != want {
						return &core.Viol{Class: "merge-vs-reference", Detail: fmt.Sprintf("Append of %d and %d pairs (%s): %s, reference %s", ls, rs, variant, trunc(got, 300), trunc(want, 300)), Case: cs}
					}
					if obs.DumpValue(lo) != lb || obs.DumpValue(ro) != rb {
						return &core.Viol{Class: "merge-mutates-operand", Detail: key, Case: cs}
					}
					// through source
					x := newSess(sessCfg{})
					r := implEval(x, "("+ref.Source(lm)+") + ("+ref.Source(rm)+")", 1000000)
					if r.isErr || r.val != want {
						return &core.Viol{Class: "merge-source-vs-reference", Detail: fmt.Sprintf("%s: %s %s, reference %s", key, trunc(r.val, 300), r.errText, trunc(want, 300)), Case: cs}
					}
					return nil
				})
				out := "merge-ok"
				if v != nil {
					out = v.Class
				}
				c.CountNT(key, out, true)
			}
		}
	}
	// literals of every size around the internal thresholds with one key written twice (the later value wins) and with
	// equal-but-not-identical duplicates (the first key object stays)
	for _, sz := range []int{2, 4, 5, 6, 16, 17, 63, 64, 65, 66, 100, 300} {
		for _, dupAt := range []string{"first-last", "adjacent", "int-float"} {
			key := fmt.Sprintf("litdup|%d|%s", sz, dupAt)
			if !c.MineNoDedup("merge", key) {
				continue
			}
			n++
			var parts []string
			mod := ref.NewMap()
			add := func(k ref.Value, v int) {
				parts = append(parts, ref.Source(k)+": "+fmt.Sprint(v))
				mod = ref.MapSet(mod, k, ref.Int(int64(v)))
			}
			for i := 0; i < sz; i++ {
				add(ref.Int(int64(i*3)), i)
				if dupAt == "adjacent" && i == sz/2 {
					add(ref.Int(int64(i*3)), 1000+i)
				}
			}
			switch dupAt {
			case "first-last":
				add(ref.Int(0), 2000)
			case "int-float":
				add(ref.Float(3.0), 3000)
			}
			src := "{" + strings.Join(parts, ", ") + "}"
			cs := core.Case{Kind: "merge", Data: key}
			c.Current(cs)
			v := c.Run(func() *core.Viol {
				x := newSess(sessCfg{})
				r := implEval(x, src, 1000000)
				if r.isErr || r.val != ref.Dump(mod) {
					return &core.Viol{Class: "literal-duplicate-key", Detail: fmt.Sprintf("%s: literal of %d pairs gave %s %s, reference %s", key, len(parts), trunc(r.val, 200), r.errText, trunc(ref.Dump(mod), 200)), Case: cs}
				}
				return nil
			})
			out := "merge-ok"
			if v != nil {
				out = v.Class
			}
			c.CountNT(key, out, true)
		}
	}
	return n
}

func runC11(c *core.Ctx) {
	var bounds []string
	us := []*c11Universe{&c11U1, &c11U3, &c11U4, &c11U5}
	srcDepth := 3
	if !c.Quick() {
		us = append(us, &c11U2)
		srcDepth = 4
	}
	for _, u := range us {
		n, d := c11BFS(c, u)
		if c.Shard == 0 {
			c.P.States += int64(n)
		}
		c.Note("api_states_"+u.name, 0)
		bounds = append(bounds, fmt.Sprintf("API %s: full reachable state space, %d states, depth %d", u.name, n, d))
		na := c11Alias(c, u, 3)
		_ = na
		bounds = append(bounds, fmt.Sprintf("API %s without merging: every history of <=3 operations (Range, Rest, Append, Set, Delete) from the large literals (4 for u1 and in the thorough tier, else the full one), every earlier value of the history re-checked after each non-mutating operation", u.name))
		ns := c11SrcExplore(c, u, srcDepth)
		_ = ns
		bounds = append(bounds, fmt.Sprintf("source %s: all histories <=%d over %d operations", u.name, srcDepth, len(c11SrcOps(u))))
	}
	c11Merge(c)
	bounds = append(bounds, "merges: left and right sizes in {0,1,3,4,5,8,15,16,17,33,64,100}^2 x 4 key relations (int vs equal float keys both ways, overlapping halves, -0.0 vs 0), at the API and through source")
	c.P.Bound = strings.Join(bounds, "; ")
}

func init() {
	core.Register(&core.Check{
		ID:       "C11",
		Level:    "model_checking",
		Rule:     "explicit-state search over one real map value: universe of 7 mixed-type keys x values {0,1}; operations literal construction (every ordered selection of <=3 keys, sorted/reverse for larger subsets, duplicate keys), Set, Delete, Append (empty, singletons, a 5-pair and a 2-pair map), Rest, Range(l,r) for all l<=r; BFS with merging on key = sorted contents + concrete Go type of the value; plus all source-level histories (m[k]=v, del, +, rest, slices, literals) up to depth 3/4 on a session variable. A second family explores every history of <=3 operations from the large literals WITHOUT merging (storage sharing between a map and the maps derived from it is not in the state key) and re-checks every earlier value of the history after each non-mutating operation; a third merges maps of sizes {0..100}^2 whose common keys are equal but not identical (1 / 1.0, 0 / -0.0); a fourth universe has keys nesting a large array inside small ones. On every state: Len, Get for every key, Inspect, First/Rest iteration, Elements, equality with freshly built maps, inequality with one-pair neighbours, persistence of non-mutating operations; through source: len, println, lookup, for-iteration, first/rest walk, ==, keys(). Non-trivial = history of at least one operation. Source operations include keys given through outer variables, parameters and closures that change afterwards; universe u5 holds keys that are equal for the map but not the same value (1 / 1.0, 0 / 0.0 / -0.0).",
		Assume:   []string{"merged states have equal futures: operations read only contents and representation, both in the key", "value universe {0,1,7,8,9}"},
		QuickCap: 100 * time.Second, ThoroughCap: 15 * time.Minute,
		Run: runC11,
		Replay: func(c *core.Ctx, cs core.Case) *core.Viol {
			u := c11Univ(cs.Cfg)
			if cs.Kind == "src" {
				ops := c11SrcOps(u)
				cl, det, _, _ := c11SrcRun(u, ops, parseInts(cs.Data))
				if cl == "" {
					return nil
				}
				return &core.Viol{Class: cl, Detail: det, Case: cs}
			}
			var hist []c11Op
			for _, f := range strings.Fields(cs.Data) {
				hist = append(hist, c11Op(f))
			}
			operands := c11AppendOperands(u)
			s, cl, det := c11Replay(u, hist, operands)
			if cl == "" {
				cl, det = c11Oracle(s)
			}
			if cl == "" {
				return nil
			}
			return &core.Viol{Class: cl, Detail: det + " after " + c11Describe(u, hist, operands), Case: cs}
		},
	})
}
