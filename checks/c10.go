package checks

import (
	"context"
	"fmt"
	"fortio.org/log"
	"strings"
	"time"

	"verif/internal/core"
)

// C10 — a failed input leaves no trace in the session (histories on one persistent state through the real
// repl.EvalOne; differential against the same history without the failing inputs).

var c10Good = []string{
	`println("hello")`,
	`func pf(x) { println("pf", x); x * 2 }; println(pf(3))`,
	`println(catch(pf(4)))`,
	`cl = func() { cc = 0; func() { cc = cc + 1; cc } }(); println(cl(), cl())`,
	`for i = 3 { println("i", i) }`,
	`for e = [1, 2] { println("e", e) }`,
	`gcount = 1`,
	`gcount = catch(gcount).value; println(gcount)`,
	`func rec(n) { if n == 0 { 0 } else { 1 + rec(n - 1) } }; println(rec(12))`,
	`func cached(x) { println("computing"); x + 1 }; println(cached(1)); println(cached(1))`,
	`m = {"a": 1}; m.a = 2; println(m, len("abc"), [1, 2][0])`,
	`func lp() { t = 0; for k = 4 { if k == 2 { continue }; t = t + k }; t }; println(lp())`,
	`println(catch(for i9 = 2 { i9 = "a" }).err)`, // observes whether top level loops still get a register
	`println(catch(rec(14)).value)`,               // a call whose frames are in flight when the CANCEL inputs below are cut off
	`DEPTHPROBE`,                                  // replaced by the deepest recursion that still fits under MaxDepth: fails if any depth level leaked
	// an input that is itself cut off inside its own functions: its error text, stack included, is compared
	`CANCEL:50:ob2 = func(n) { if n == 0 { 0 } else { 1 + self(n - 1) } }; ob1 = func() { ob2(5) }; println(ob1())`,
}

// failing inputs that complete no side effect. "CTX:" marks inputs run under an already cancelled context.
var c10Bad = []string{
	`1 + "a"`,
	`func() { func() { error("inner") }() }()`,
	`func() { for a1 = 2 { for a2 = 2 { error("loop") } } }()`,
	`func() { verif_panic() }()`,
	`func() { for q = 2 { verif_panic() } }()`,
	`for 2 { verif_panic() }`,
	`DEEP`, // replaced by an expression nested deeper than MaxDepth
	`func() { rr = func(n) { self(n + 1) }; rr(0) }()`,
	`CTX:println("never")`,
	`func() { verif_cancel(); 1 }()`,
	`1 +* 2`,
	`println("partial", 1 + "a")`,
	`for 3 { for 2 { func() { verif_panic() }() } }`,
	`[1, 2, func() { error("in array") }()]`,
	`func(a, b) { a + b }(1)`,
	`for z1 = 2 { for z2 = 3 { verif_panic() } }`, // leaves registers allocated in the root environment (its loop variables are not observed by the succeeding inputs)
	`for z3 = 2 { rec(100) }`,                     // depth overflow (or unknown function) inside a counted loop at top level
	// cancellation striking inside memoizable calls (frames rec(16)..rec(13) in flight), at 1/4, 1/2 and 3/4 of the evaluation
	`CANCEL:25:println(rec(16))`, `CANCEL:50:println(rec(16))`, `CANCEL:75:println(rec(16))`,
	`break`, `if true { continue }`, `func() { break }()`, `for true { func() { continue }() }`,
	// depth overflow while the active frame belongs to a function defined outside this session's environment tree:
	// a grol-defined library function, a function made by unjson()
	`LIBDEEP`, `unjson("func(n) { self(n + 1) }")(0)`, `printf("%d", func() { rr = func(n) { self(n + 1) }; rr(0) }())`,
	`NESTDEEP`, // (thorough tier only, kept last) recursion wrapped in 6000 nested brackets: the evaluator's nesting bound, not MaxDepth, stops it
}

const c10MaxDepth = 60

func c10Deep() string {
	return strings.Repeat("-(", c10MaxDepth+20) + "1" + strings.Repeat(")", c10MaxDepth+20)
}

var c10ProbeSrc string

// c10DepthProbe finds (once) the largest n for which a recursion of depth n fits under c10MaxDepth on a fresh state.
func c10DepthProbe() string {
	if c10ProbeSrc != "" {
		return c10ProbeSrc
	}
	def := "func dp(n) { if n == 0 { 0 } else { 1 + dp(n - 1) } }; "
	best := 1
	for n := 1; n < c10MaxDepth; n++ {
		x := newSess(sessCfg{maxDepth: c10MaxDepth})
		r := x.step(def + fmt.Sprintf("println(dp(%d))", n))
		if r.panicked || len(r.errs) > 0 {
			break
		}
		best = n
	}
	c10ProbeSrc = def + fmt.Sprintf("println(dp(%d))", best)
	return c10ProbeSrc
}

var c10CancelPolls = map[string]int{}

// c10CancelAt returns the poll at which a CANCEL:<pct>:<src> input is cut off: pct percent of the polls src makes
// on a session that has only defined rec (measured once; deterministic).
func c10CancelAt(pct int, src string) int {
	n, ok := c10CancelPolls[src]
	if !ok {
		x := newSess(sessCfg{maxDepth: c10MaxDepth})
		x.step(c10Good[8])
		// (repl.EvalOne derives its own context, whose Err() does not poll the parent: the cut-off inputs are
		// therefore evaluated like evalOne does - parse, macros, Eval - with the counting context installed directly)
		lo, hi := 0, 1<<20
		for lo < hi { // smallest budget under which src completes = its number of polls
			mid := (lo + hi) / 2
			y := newSess(sessCfg{maxDepth: c10MaxDepth})
			y.step(c10Good[8])
			if r := implEval(y, src, mid); r.isErr {
				lo = mid + 1
			} else {
				hi = mid
			}
		}
		_ = x
		n = lo
		c10CancelPolls[src] = n
	}
	return n * pct / 100
}

func c10Step(x *sess, in string) stepRec {
	if strings.HasPrefix(in, "CANCEL:") {
		var pct int
		rest := strings.TrimPrefix(in, "CANCEL:")
		fmt.Sscanf(rest, "%d", &pct)
		src := rest[strings.IndexByte(rest, ':')+1:]
		r := implEval(x, src, c10CancelAt(pct, src))
		rec := stepRec{out: r.out}
		if r.isErr {
			rec.errs = []string{r.errText + " | stack: " + r.errStack}
			rec.out = ""
		}
		return rec
	}
	if in == "LIBDEEP" {
		var kv []string
		for i := 0; i < 100; i++ {
			kv = append(kv, fmt.Sprintf("%d: %d", i, i))
		}
		in = "keys({" + strings.Join(kv, ", ") + "})" // keys() is written in grol and recurses once per entry
	}
	if in == "NESTDEEP" {
		in = "func nd(n) { " + strings.Repeat("[", 6000) + "nd(n + 1)" + strings.Repeat("]", 6000) + " }; nd(0)"
	}
	if in == "DEEP" {
		in = c10Deep()
	}
	if in == "DEPTHPROBE" {
		in = c10DepthProbe()
	}
	if strings.HasPrefix(in, "CTX:") {
		ctx, cancel := context.WithCancel(context.Background())
		cancel()
		return x.stepCtx(ctx, strings.TrimPrefix(in, "CTX:"))
	}
	return x.step(in)
}

// a history item: index into c10Good (>=0) or -(1+index into c10Bad)
func c10Render(h []int) string {
	parts := make([]string, len(h))
	for i, x := range h {
		if x >= 0 {
			parts[i] = c10Good[x]
		} else {
			parts[i] = "FAIL{" + c10Bad[-x-1] + "}"
		}
	}
	return strings.Join(parts, " ;; ")
}

func c10Encode(h []int) string {
	parts := make([]string, len(h))
	for i, x := range h {
		parts[i] = fmt.Sprint(x)
	}
	return strings.Join(parts, ",")
}

// c10DebugBad: the failing inputs of the history are evaluated at debug log level.
var c10DebugBad bool

func c10Check(h []int, noReg bool) *core.Viol {
	cfg := sessCfg{noReg: noReg, maxDepth: c10MaxDepth}
	// base history (succeeding inputs only)
	base := newSess(cfg)
	var want []stepRec
	for _, x := range h {
		if x >= 0 {
			want = append(want, c10Step(base, c10Good[x]))
		}
	}
	full := newSess(cfg)
	k := 0
	for i, x := range h {
		if x < 0 {
			var r stepRec
			if c10DebugBad {
				// the failing input evaluated at debug log level (the later inputs at the normal one)
				prev := log.GetLogLevel()
				log.SetLogLevelQuiet(log.Debug)
				r = c10Step(full, c10Bad[-x-1])
				log.SetLogLevelQuiet(prev)
			} else {
				r = c10Step(full, c10Bad[-x-1])
			}
			if len(r.errs) == 0 && !r.panicked && strings.HasPrefix(c10Bad[-x-1], "CANCEL:") {
				return nil // finished before the cancellation instant (its calls were already cached): not a failing input here
			}
			if len(r.errs) == 0 && !r.panicked {
				return &core.Viol{Class: "harness: failing input did not fail", Detail: c10Bad[-x-1] + " -> " + r.String(), Case: core.Case{Kind: "hist", Data: c10Encode(h)}, FindText: c10Render(h)}
			}
			if r.out != "" && !strings.HasPrefix(r.out, "<err") {
				// a failing input of this alphabet prints nothing (it completes no side effect)
				return &core.Viol{Class: "harness: failing input has output", Detail: c10Bad[-x-1] + " -> " + r.String(), Case: core.Case{Kind: "hist", Data: c10Encode(h)}, FindText: c10Render(h)}
			}
			continue
		}
		got := c10Step(full, c10Good[x])
		if !sameRec(got, want[k]) {
			// class: how the succeeding input ended after the failure + which kind of failing input preceded it last
			lastBad := ""
			for j := i - 1; j >= 0; j-- {
				if h[j] < 0 {
					lastBad = c10Bad[-h[j]-1]
					break
				}
			}
			cl := "after-failure:" + outcomeClass(got)
			if outcomeClass(got) == "ok" {
				cl = "after-failure:output-differs"
				if got.out == "" && want[k].out != "" {
					cl = "after-failure:output-lost"
				}
			}
			return &core.Viol{Class: cl, Detail: fmt.Sprintf("input %d (%q) after failing %q: got %s ; without the failing inputs: %s", i, c10Good[x], lastBad, got, want[k]),
				Case: core.Case{Kind: "hist", Data: c10Encode(h)}, FindText: c10Render(h)}
		}
		k++
	}
	return nil
}

// c10NestingFamily: after every kind of failing input (1 or 3 times), the deepest recursion that fits under the
// evaluator's own nesting bound (found by bisection on a fresh session) must still fit: no nesting level may leak.
func c10NestingFamily(c *core.Ctx) string {
	if !c.MineNoDedup("nest", "the nesting family runs in one worker") {
		return ""
	}
	prog := func(n int) string {
		return fmt.Sprintf("func nf(n) { if n <= 0 { return n }; first([nf(n - 1)]) }; println(nf(%d))", n)
	}
	cfg := sessCfg{maxDepth: 1 << 30}
	fits := func(x *sess, n int) bool {
		r := x.step(prog(n))
		return !r.panicked && len(r.errs) == 0
	}
	lo, hi := 1000, 400000 // lo fits, hi does not
	c.Current(core.Case{Kind: "nest", Data: "bisect"})
	if fits(newSess(cfg), hi) || !fits(newSess(cfg), lo) {
		return ""
	}
	for lo+1 < hi {
		mid := (lo + hi) / 2
		c.Current(core.Case{Kind: "nest", Data: fmt.Sprintf("bisect %d", mid)})
		if fits(newSess(cfg), mid) {
			lo = mid
		} else {
			hi = mid
		}
	}
	n := 0
	for bi := range c10Bad {
		if c10Bad[bi] == "NESTDEEP" || c10Bad[bi] == "DEEP" || strings.HasPrefix(c10Bad[bi], "for z3") {
			continue // (they need the small MaxDepth of the main family)
		}
		for _, m := range []int{1, 3} {
			cs := core.Case{Kind: "nest", Cfg: fmt.Sprint(m), Data: c10Bad[bi]}
			c.Current(cs)
			v := c.Run(func() *core.Viol {
				x := newSess(cfg)
				x.step(c10Good[8]) // defines rec (used by the CANCEL inputs)
				for k := 0; k < m; k++ {
					c10Step(x, c10Bad[bi])
				}
				if !fits(x, lo) {
					return &core.Viol{Class: "after-failure:nesting-level-leaked", Detail: fmt.Sprintf("after %d x %q a recursion %d deep no longer fits under the nesting bound (it does on a fresh session)", m, c10Bad[bi], lo), Case: cs}
				}
				return nil
			})
			out := "no-trace"
			if v != nil {
				out = v.Class
			}
			c.CountNT(fmt.Sprintf("nest: %dx %s", m, trunc(c10Bad[bi], 80)), out, true)
			n++
		}
	}
	return fmt.Sprintf("nesting bound: after each of %d failing inputs (x1, x3) the deepest recursion that fits on a fresh session (%d levels) still fits", n/2, lo)
}

func runC10(c *core.Ctx) {
	nestBound := c10NestingFamily(c)
	if nestBound != "" {
		defer func() { c.P.Bound += "; " + nestBound }()
	}
	baseLen := 2
	if !c.Quick() {
		baseLen = 3
	}
	do := func(h []int) bool {
		if c.P.Evals&0xff == 0 && c.Expired() {
			return false
		}
		key := c10Encode(h)
		if !c.MineNoDedup("hist", key) {
			return true
		}
		c.Current(core.Case{Kind: "hist", Data: key})
		out := "no-trace"
		for _, noReg := range []bool{false, true} {
			nr := noReg
			if v := c.Run(func() *core.Viol { return c10Check(h, nr) }); v != nil {
				out = v.Class
				break
			}
		}
		if out == "no-trace" && len(h) <= 3 {
			c10DebugBad = true
			if v := c.Run(func() *core.Viol { return c10Check(h, false) }); v != nil {
				out = v.Class
				v.Detail = "(failing inputs at debug log level) " + v.Detail
			}
			c10DebugBad = false
		}
		c.CountNT("hist: "+trunc(c10Render(h), 200), out, true)
		c.P.Traces++
		c.P.Transitions += int64(len(h)) * 2
		return true
	}
	nb := len(c10Bad)
	if c.Quick() {
		nb-- // NESTDEEP costs ~50 ms per occurrence: thorough tier only
	}
	ok := enumTuples(len(c10Good), baseLen, func(base []int) bool {
		L := len(base)
		// one failing input at every position, repeated m times
		for f := 0; f < nb; f++ {
			for pos := 0; pos <= L; pos++ {
				for _, m := range []int{1, 2, 9, 17} {
					if L == 0 && m > 1 {
						continue
					}
					var h []int
					h = append(h, base[:pos]...)
					for r := 0; r < m; r++ {
						h = append(h, -(f + 1))
					}
					h = append(h, base[pos:]...)
					if !do(h) {
						return false
					}
				}
			}
		}
		// two (different or equal) failing inputs at every pair of positions
		if L >= 1 {
			for f1 := 0; f1 < nb; f1++ {
				for f2 := 0; f2 < nb; f2++ {
					for p1 := 0; p1 <= L; p1++ {
						for p2 := p1; p2 <= L; p2++ {
							if p1 == p2 && f1 == f2 {
								continue // covered by the repetition family
							}
							var h []int
							h = append(h, base[:p1]...)
							h = append(h, -(f1 + 1))
							h = append(h, base[p1:p2]...)
							h = append(h, -(f2 + 1))
							h = append(h, base[p2:]...)
							if !do(h) {
								return false
							}
						}
					}
				}
			}
		}
		return true
	})
	c.P.States = c.P.Traces
	if ok {
		c.P.Bound = fmt.Sprintf("base histories: every sequence of <=%d of %d succeeding inputs; for each, every placement of one failing input (of %d kinds) repeated 1/2/9/17 times at every position and every placement of two failing inputs at every pair of positions; registers on and off", baseLen, len(c10Good), nb)
	}
}

func init() {
	core.Register(&core.Check{
		ID:          "C10",
		Level:       "model_checking",
		Rule:        "history exploration through the real repl.EvalOne on one persistent eval.State (MaxDepth 60): base histories = every sequence of <=2 (thorough 3) of 12 succeeding inputs (printing, defining and calling printing/cached/recursive functions, closures, counted and list loops, global updates); into each, every placement of one side-effect-free failing input of 15 kinds (language error at top level / in nested calls / in nested loops / in an array literal / wrong arity, Go runtime panic in a function / in a loop / in nested loops, depth overflow at top level and in a function, pre-cancelled context, cancellation inside a function, parse error, error while building print arguments) repeated 1, 2, 9 and 17 times at every position, and every placement of two failing inputs. Oracle: each succeeding input's output, result, errors equal those of the base history without the failing inputs. Non-trivial = every history; distinct by input sequence. One compared input is itself cut off inside its own functions: its error text is compared together with the stack the error carries.",
		Assume:      []string{"runtime panics injected by the harness extension verif_panic()", "cancellation injected by verif_cancel() and a pre-cancelled context"},
		QuickCap:    300 * time.Second,
		ThoroughCap: 20 * time.Minute,
		HangLimit:   240 * time.Second,
		Run:         runC10,
		Replay: func(c *core.Ctx, cs core.Case) *core.Viol {
			h := parseInts(cs.Data)
			for _, noReg := range []bool{false, true} {
				if v := c10Check(h, noReg); v != nil {
					return v
				}
			}
			return nil
		},
	})
}
