package checks

import (
	"context"
	"fmt"
	"io"
	"sort"
	"strings"
	"time"

	"fortio.org/terminal"
	"grol.io/grol/eval"
	"grol.io/grol/repl"
	"grol.io/grol/trie"
	"verif/internal/core"
)

// C20 — the completion index behaves as a set of words.
//
// Explicit-state search over the real trie: a state is the insertion history that reaches
// it; a successor is obtained by replaying the history on a fresh trie plus one more
// Insert. Merging key = set of words + observable structure (nil/valid/leaf for every
// prefix up to length 4), so two histories are merged only if the trie is observably the
// same node for node.

func c20Words(alpha []byte, maxLen int) []string {
	var out []string
	enumStrings(alpha, maxLen, func(b []byte) bool {
		if len(b) > 0 {
			out = append(out, string(b))
		}
		return true
	})
	return out
}

func c20Build(words []string, hist []int) *trie.Trie {
	t := trie.NewTrie()
	for _, i := range hist {
		t.Insert(words[i])
	}
	return t
}

func c20Prefixes(alpha []byte, maxLen int) []string {
	out := []string{""}
	enumStrings(alpha, maxLen, func(b []byte) bool {
		if len(b) > 0 {
			out = append(out, string(b))
		}
		return true
	})
	return out
}

func c20Key(t *trie.Trie, set map[string]bool, prefixes []string) string {
	var sb strings.Builder
	ws := make([]string, 0, len(set))
	for w := range set {
		ws = append(ws, w)
	}
	sort.Strings(ws)
	for _, w := range ws {
		sb.WriteString(w)
		sb.WriteByte(',')
	}
	sb.WriteByte('|')
	for _, p := range prefixes {
		n := t.Prefix(p)
		switch {
		case n == nil:
			sb.WriteByte('-')
		case n.IsLeaf():
			sb.WriteByte('L')
		case n.IsValid():
			sb.WriteByte('V')
		default:
			sb.WriteByte('n')
		}
	}
	return sb.String()
}

func lcp(ws []string) int {
	if len(ws) == 0 {
		return 0
	}
	p := ws[0]
	for _, w := range ws[1:] {
		i := 0
		for i < len(p) && i < len(w) && p[i] == w[i] {
			i++
		}
		p = p[:i]
	}
	return len(p)
}

var c20Term = &terminal.Terminal{Out: io.Discard}

// c20Oracle checks every observation of the trie against the reference set.
func c20Oracle(t *trie.Trie, set map[string]bool, universe, prefixes []string) (string, string) {
	ref := make([]string, 0, len(set))
	for w := range set {
		ref = append(ref, w)
	}
	sort.Strings(ref)
	for _, w := range universe {
		if t.Contains(w) != set[w] {
			return "contains", fmt.Sprintf("Contains(%q)=%v, reference %v", w, t.Contains(w), set[w])
		}
	}
	if t.Contains("") {
		return "contains-empty", "Contains(\"\") is true"
	}
	if t.Contains("zz") && !set["zz"] {
		return "contains-foreign", "Contains(\"zz\") is true"
	}
	for _, p := range prefixes {
		var want []string
		for _, w := range ref {
			if strings.HasPrefix(w, p) {
				want = append(want, w)
			}
		}
		l, got := t.PrefixAll(p)
		if len(got) != len(want) {
			return "prefixall-set", fmt.Sprintf("PrefixAll(%q)=%q, reference %q", p, got, want)
		}
		for i := range got {
			if got[i] != want[i] {
				return "prefixall-set", fmt.Sprintf("PrefixAll(%q)=%q, reference %q (byte order, each once)", p, got, want)
			}
		}
		if len(want) > 0 {
			if wl := lcp(want); l != wl {
				return "prefixall-len", fmt.Sprintf("PrefixAll(%q) length %d, longest common prefix of %q is %d", p, l, want, wl)
			}
		}
		// completion callback
		ac := &repl.AutoComplete{Trie: t}
		nl, np, ok := ac.AutoComplete()(c20Term, p, len(p), '\t')
		if ok != (len(want) > 0) {
			return "complete-ok", fmt.Sprintf("completion of %q ok=%v with matches %q", p, ok, want)
		}
		if ok {
			if !strings.HasPrefix(nl, p) {
				return "complete-extends", fmt.Sprintf("completion of %q returned %q which does not extend it", p, nl)
			}
			if np != len(nl) {
				return "complete-pos", fmt.Sprintf("completion of %q returned pos %d for %q", p, np, nl)
			}
			for _, w := range want {
				if !strings.HasPrefix(w, nl) {
					return "complete-undefined", fmt.Sprintf("completion of %q returned %q, not a prefix of defined %q", p, nl, w)
				}
			}
		}
		// other keys do nothing
		if _, _, ok2 := ac.AutoComplete()(c20Term, p, len(p), 'x'); ok2 {
			return "complete-nontab", "callback acted on a non-tab key"
		}
		// the same prefix typed with blanks around it, and with the cursor before the end of the line: what is
		// completed is exactly what is before the cursor
		for _, line := range []string{" " + p, "\t" + p, p + " ", p + p} {
			for pos := max(0, len(line)-1); pos <= len(line); pos++ {
				typed := line[:pos]
				var w2 []string
				for _, w := range ref {
					if strings.HasPrefix(w, typed) {
						w2 = append(w2, w)
					}
				}
				nl, _, ok := ac.AutoComplete()(c20Term, line, pos, '\t')
				if ok != (len(w2) > 0) {
					return "complete-ok", fmt.Sprintf("completion of %q at %d ok=%v with matches %q", line, pos, ok, w2)
				}
				if ok && !strings.HasPrefix(nl, typed) {
					return "complete-extends", fmt.Sprintf("completion of %q at %d returned %q which does not extend what was typed", line, pos, nl)
				}
				if ok {
					for _, w := range w2 {
						if !strings.HasPrefix(w, nl) {
							return "complete-undefined", fmt.Sprintf("completion of %q at %d returned %q, not a prefix of defined %q", line, pos, nl, w)
						}
					}
				}
			}
		}
	}
	return "", ""
}

func c20Hist(words []string, hist []int) string {
	parts := make([]string, len(hist))
	for i, h := range hist {
		parts[i] = fmt.Sprintf("%q", words[h])
	}
	return strings.Join(parts, " ")
}

func c20Case(kind string, alphaName string, words []string, hist []int) core.Case {
	idx := make([]string, len(hist))
	for i, h := range hist {
		idx[i] = fmt.Sprint(h)
	}
	return core.Case{Kind: kind, Cfg: alphaName, Data: strings.Join(idx, ",")}
}

func c20Check(c *core.Ctx, kind, alphaName string, words, prefixes []string, hist []int) (*core.Viol, string) {
	set := map[string]bool{}
	for _, h := range hist {
		set[words[h]] = true
	}
	var key string
	c.Current(c20Case(kind, alphaName, words, hist))
	v := c.Run(func() *core.Viol {
		t := c20Build(words, hist)
		key = c20Key(t, set, prefixes)
		cl, det := c20Oracle(t, set, words, prefixes)
		if cl == "" {
			return nil
		}
		return &core.Viol{Class: cl, Detail: det + " after inserting " + c20Hist(words, hist), Case: c20Case(kind, alphaName, words, hist),
			FindText: "insert " + c20Hist(words, hist)}
	})
	return v, key
}

type c20Universe struct {
	name   string
	alpha  []byte
	maxLen int
	seqLen int // depth-bounded complete sequences without repetition
	bfsLen int // BFS with merging over words up to this length
}

func c20Universes(c *core.Ctx) []c20Universe {
	if c.Quick() {
		return []c20Universe{{"ab", []byte("ab"), 3, 4, 3}, {"a-00-ff", []byte{'a', 0, 0xff}, 2, 4, 2}}
	}
	return []c20Universe{{"ab", []byte("ab"), 3, 5, 3}, {"a-00-ff", []byte{'a', 0, 0xff}, 3, 4, 2}, {"abc", []byte("abc"), 2, 6, 2}}
}

func c20Alpha(name string) *c20Universe {
	for _, u := range []c20Universe{{"ab", []byte("ab"), 3, 5, 3}, {"a-00-ff", []byte{'a', 0, 0xff}, 3, 4, 2}, {"abc", []byte("abc"), 2, 6, 2}} {
		if u.name == name {
			return &u
		}
	}
	return nil
}

func runC20(c *core.Ctx) {
	var bounds []string
	for _, u := range c20Universes(c) {
		words := c20Words(u.alpha, u.maxLen)
		prefixes := c20Prefixes(u.alpha, 4)
		if len(u.alpha) > 2 {
			prefixes = c20Prefixes(u.alpha, 3)
		}
		// 1. depth-bounded complete: every insertion sequence without repetition up to seqLen
		var rec func(hist []int, used uint64)
		rec = func(hist []int, used uint64) {
			if c.Expired() {
				return
			}
			if len(hist) > 0 {
				cs := c20Case("seq", u.name, words, hist)
				if c.MineNoDedup("seq-"+u.name, cs.Data) {
					v, key := c20Check(c, "seq", u.name, words, prefixes, hist)
					out := fmt.Sprintf("words=%d", popcount(used))
					if v != nil {
						out = v.Class
					}
					c.CountNT("seq["+u.name+"]: "+c20Hist(words, hist), out, true)
					_ = key
					c.P.Traces++
				}
			}
			if len(hist) == u.seqLen {
				return
			}
			for i := range words {
				if used&(1<<uint(i)) != 0 {
					continue
				}
				rec(append(hist, i), used|1<<uint(i))
			}
		}
		rec(nil, 0)
		bounds = append(bounds, fmt.Sprintf("%s: %d words, all non-repeating insertion sequences <=%d", u.name, len(words), u.seqLen))
		// 2. reachability with merging (single worker: BFS is sequential)
		if c.Shard == 0 {
			bw := c20Words(u.alpha, u.bfsLen)
			// bw is a prefix-closed subset of words in the same order? ensure indices refer to bw
			seen := map[string]bool{}
			type st struct{ hist []int }
			start := c20Key(trie.NewTrie(), map[string]bool{}, prefixes)
			seen[start] = true
			frontier := []st{{nil}}
			maxDepth := 0
			for len(frontier) > 0 && !c.Expired() {
				cur := frontier[0]
				frontier = frontier[1:]
				for i := range bw { // includes re-insertion of present words
					nh := append(append([]int{}, cur.hist...), i)
					v, key := c20Check(c, "bfs", u.name+"/"+fmt.Sprint(u.bfsLen), bw, prefixes, nh)
					c.P.Transitions++
					out := "bfs-ok"
					if v != nil {
						out = v.Class
					}
					c.CountNT("bfs["+u.name+"]: "+c20Hist(bw, nh), out, true)
					if !seen[key] {
						seen[key] = true
						frontier = append(frontier, st{nh})
						if len(nh) > maxDepth {
							maxDepth = len(nh)
						}
					}
				}
			}
			c.P.States += int64(len(seen))
			c.Note("bfs_max_depth_"+u.name, int64(maxDepth))
			bounds = append(bounds, fmt.Sprintf("%s: full reachable state space over %d words (%d states, depth %d)", u.name, len(bw), len(seen), maxDepth))
		}
	}
	// 2b. queries interleaved with insertions: a history is a sequence of Insert(w) / PrefixAll(p) / Contains(w)
	//     operations on one trie, every query answered against the reference set at that moment (a structure that
	//     remembers answers between operations is only visible this way)
	{
		ops := c20IlOps()
		depth := 4
		if !c.Quick() {
			depth = 6
		}
		run := c20IlRun
		describe := func(idx []int) string {
			parts := make([]string, len(idx))
			for i, x := range idx {
				parts[i] = fmt.Sprintf("%c(%q)", ops[x].kind, ops[x].arg)
			}
			return strings.Join(parts, " ")
		}
		ok := enumTuples(len(ops), depth, func(idx []int) bool {
			if len(idx) < 2 || ops[idx[len(idx)-1]].kind == 'i' {
				return true // histories ending in a query
			}
			if c.P.Evals&0xfff == 0 && c.Expired() {
				return false
			}
			key := describe(idx)
			if !c.MineNoDedup("interleaved", key) {
				return true
			}
			cs := core.Case{Kind: "interleaved", Data: c20Ints(idx)}
			v := c.Run(func() *core.Viol {
				cl, det := run(idx)
				if cl == "" {
					return nil
				}
				return &core.Viol{Class: cl, Detail: det + " in " + key, Case: cs, FindText: key}
			})
			out := "interleaved-ok"
			if v != nil {
				out = v.Class
			}
			c.CountNT("interleaved: "+key, out, true)
			c.P.Traces++
			return true
		})
		if ok {
			bounds = append(bounds, fmt.Sprintf("interleaved: every history of <=%d operations over %d (6 insertions, 5 prefix queries, 3 membership queries) ending in a query, each query checked when it is made", depth, len(ops)))
		}
	}
	// 2c. full fan-out: a node that gets all 256 children, in increasing and decreasing byte order
	if c.Shard == 0 || c.Of == 1 {
		for _, stem := range []string{"", "x", "id"} {
			for _, rev := range []bool{false, true} {
				stem, rev := stem, rev
				cs := core.Case{Kind: "fanout", Cfg: fmt.Sprint(rev), Data: stem}
				v := c.Run(func() *core.Viol { return c20Fanout(stem, rev, cs) })
				out := "fanout-ok"
				if v != nil {
					out = v.Class
				}
				c.CountNT(fmt.Sprintf("fanout: stem %q reverse=%v", stem, rev), out, true)
			}
		}
		bounds = append(bounds, "fan-out: stems \"\", \"x\", \"id\" followed by each of the 256 byte values, inserted in increasing and decreasing order, prefix query checked after every insertion")
	}
	// 2d. long words: a word extending the queried prefix by 255..1000 bytes, with shorter siblings inserted before / after
	if c.Shard == 0 || c.Of == 1 {
		for _, n := range []int{100, 255, 256, 257, 258, 300, 512, 513, 1000, 5000} {
			for _, order := range [][]string{{"L", "b", "bc", "c"}, {"b", "L", "bc", "c"}, {"b", "bc", "c", "L"}, {"L", "L2", "b", "c"}, {"c", "b", "L2", "L", "bc"}} {
				n, order := n, order
				cs := core.Case{Kind: "longword", Cfg: fmt.Sprint(n), Data: strings.Join(order, ",")}
				c.Current(cs)
				v := c.Run(func() *core.Viol {
					t := trie.NewTrie()
					set := map[string]bool{}
					for step, w := range order {
						switch w {
						case "L":
							w = "a" + strings.Repeat("x", n)
						case "L2":
							w = "a" + strings.Repeat("x", n/2) + "y" + strings.Repeat("z", n)
						}
						t.Insert(w)
						set[w] = true
						for _, p := range []string{"", "a", "b", "ax"} {
							var want []string
							for x := range set {
								if strings.HasPrefix(x, p) {
									want = append(want, x)
								}
							}
							sort.Strings(want)
							l, got := t.PrefixAll(p)
							if strings.Join(got, "\x00") != strings.Join(want, "\x00") {
								return &core.Viol{Class: "longword:prefixall-set", Detail: fmt.Sprintf("after step %d (word length %d): PrefixAll(%q) returned %d words, reference %d; first difference near %q", step, n, p, len(got), len(want), trunc(strings.Join(got, ","), 60)), Case: cs}
							}
							if len(want) > 0 && l != lcp(want) {
								return &core.Viol{Class: "longword:prefixall-len", Detail: fmt.Sprintf("after step %d: PrefixAll(%q) length %d, reference %d", step, p, l, lcp(want)), Case: cs}
							}
						}
					}
					return nil
				})
				out := "longword-ok"
				if v != nil {
					out = v.Class
				}
				c.CountNT(fmt.Sprintf("longword: %d %v", n, order), out, true)
			}
		}
		bounds = append(bounds, "long words: a word (and a second one diverging in its middle) of 100..5000 bytes with three short siblings in 5 insertion orders, 4 prefix queries after every insertion")
	}
	// 3. through the interpreter: top-level definitions recorded in a registered trie
	if c.Shard == 0 || c.Of == 1 {
		c20Session(c)
		bounds = append(bounds, fmt.Sprintf("session: all sequences <=3 of %d top-level definitions (variables, functions, lambdas, constants, refused redefinitions of constants and extension names)", len(c20Defs)))
	}
	c.P.Bound = strings.Join(bounds, "; ")
}

type c20Op struct {
	kind byte
	arg  string
}

func c20IlOps() []c20Op {
	var ops []c20Op
	for _, w := range c20Words([]byte("ab"), 2) {
		ops = append(ops, c20Op{'i', w})
	}
	for _, p := range []string{"", "a", "b", "ab", "aa"} {
		ops = append(ops, c20Op{'p', p})
	}
	for _, w := range []string{"a", "ab", "bb"} {
		ops = append(ops, c20Op{'c', w})
	}
	return ops
}

func c20IlRun(idx []int) (string, string) {
	ops := c20IlOps()
	t := trie.NewTrie()
	set := map[string]bool{}
	type held struct {
		step int
		got  []string // the slice the query returned (kept by the caller, as a completion menu does)
		copy string
	}
	var answers []held
	for step, x := range idx {
		// answers of earlier queries stay what they were, whatever is inserted or asked afterwards
		for _, h := range answers {
			if strings.Join(h.got, "\x00") != h.copy {
				return "interleaved:earlier-answer-changed", fmt.Sprintf("the list returned at step %d reads %q at step %d, it was %q", h.step, h.got, step, strings.Split(h.copy, "\x00"))
			}
		}
		o := ops[x]
		switch o.kind {
		case 'i':
			t.Insert(o.arg)
			set[o.arg] = true
		case 'c':
			if t.Contains(o.arg) != set[o.arg] {
				return "interleaved:contains", fmt.Sprintf("step %d: Contains(%q)=%v, reference %v", step, o.arg, t.Contains(o.arg), set[o.arg])
			}
		case 'p':
			var want []string
			for w := range set {
				if strings.HasPrefix(w, o.arg) {
					want = append(want, w)
				}
			}
			sort.Strings(want)
			l, got := t.PrefixAll(o.arg)
			if strings.Join(got, "\x00") != strings.Join(want, "\x00") {
				return "interleaved:prefixall-set", fmt.Sprintf("step %d: PrefixAll(%q)=%q, reference %q", step, o.arg, got, want)
			}
			answers = append(answers, held{step, got, strings.Join(got, "\x00")})
			if len(want) > 0 && l != lcp(want) {
				return "interleaved:prefixall-len", fmt.Sprintf("step %d: PrefixAll(%q) length %d, reference %d for %q", step, o.arg, l, lcp(want), want)
			}
		}
	}
	for _, h := range answers {
		if strings.Join(h.got, "\x00") != h.copy {
			return "interleaved:earlier-answer-changed", fmt.Sprintf("the list returned at step %d reads %q at the end, it was %q", h.step, h.got, strings.Split(h.copy, "\x00"))
		}
	}
	return "", ""
}

func c20Fanout(stem string, rev bool, cs core.Case) *core.Viol {
	t := trie.NewTrie()
	var want []string
	for k := 0; k < 256; k++ {
		b := k
		if rev {
			b = 255 - k
		}
		w := stem + string([]byte{byte(b)})
		t.Insert(w)
		want = append(want, w)
		sort.Strings(want)
		for _, p := range []string{stem, ""} {
			l, got := t.PrefixAll(p)
			if strings.Join(got, "\x00") != strings.Join(want, "\x00") {
				return &core.Viol{Class: "fanout:prefixall-set", Detail: fmt.Sprintf("after %d insertions PrefixAll(%q) returns %d words, reference %d", k+1, p, len(got), len(want)), Case: cs}
			}
			if l != lcp(want) {
				return &core.Viol{Class: "fanout:prefixall-len", Detail: fmt.Sprintf("after %d insertions under stem %q: PrefixAll(%q) length %d, reference %d", k+1, stem, p, l, lcp(want)), Case: cs}
			}
		}
		if !t.Contains(w) {
			return &core.Viol{Class: "fanout:contains", Detail: fmt.Sprintf("Contains(%q) false after inserting it", w), Case: cs}
		}
	}
	return nil
}

func c20Ints(idx []int) string {
	parts := make([]string, len(idx))
	for i, x := range idx {
		parts[i] = fmt.Sprint(x)
	}
	return strings.Join(parts, ",")
}

func popcount(x uint64) int {
	n := 0
	for x != 0 {
		x &= x - 1
		n++
	}
	return n
}

var c20Defs = []struct{ src, name, suffix string }{
	{"abc=1", "abc", " "}, {"ab=2", "ab", " "}, {"a=3", "a", " "}, {"b=4", "b", " "},
	{"func abc(){1}", "abc", "("}, {"func ab(){2}", "ab", "("}, {"a=()=>3", "a", "("}, {"abcd=\"x\"", "abcd", " "},
	// constants and extension names: the second definition of another kind / value is refused
	{"mm=macro(pq){quote(unquote(pq)+1)}", "", ""}, {"x9=mm(2)", "x9", " "}, {"OTHER-STATE", "", ""},
	{"LIM=10", "LIM", " "}, {"LIM=func(){1}", "LIM", "("}, {"func ANS(){42}", "ANS", "("}, {"ANS=43", "ANS", " "}, {"PI=func(){1}", "PI", "("}, {"sin=42", "sin", " "},
}

func c20SessionOne(seq []int) (string, string) {
	s := eval.NewState()
	s.Out = io.Discard
	s.LogOut = io.Discard
	t := trie.NewTrie()
	s.RegisterTrie(t)
	want := map[string]bool{}
	must := map[string]bool{}
	// whatever the root environment already holds is recorded by RegisterTrie; learn it from the trie itself
	_, pre := t.PrefixAll("")
	for _, w := range pre {
		want[w] = true
		must[w] = true
	}
	opts := repl.Options{All: true, ShowEval: true, NoColor: true}
	for _, i := range seq {
		d := c20Defs[i]
		if d.src == "OTHER-STATE" {
			// another interpreter state of the same process (no completion index of its own) defines names: not ours
			o := eval.NewState()
			o.Out, o.LogOut = io.Discard, io.Discard
			_, _, _, _ = repl.EvalOne(context.Background(), o, "zzother = 1; func zzfn() { 2 }", io.Discard, opts)
			continue
		}
		_, _, errs, _ := repl.EvalOne(context.Background(), s, d.src, io.Discard, opts)
		if len(errs) > 0 {
			// a refused definition (changing a constant, an extension function's name) defines nothing:
			// the index must stay as it was
			continue
		}
		if d.name == "" {
			continue // (a macro definition: whether macros are offered is not specified; its parameters never are)
		}
		if !want[d.name] { // first definition of the name: both forms must be recorded
			must[d.name] = true
			must[d.name+d.suffix] = true
		}
		// a redefinition with another kind may or may not add the other suffix (the property only
		// demands that nothing undefined is offered)
		want[d.name] = true
		want[d.name+d.suffix] = true
	}
	for w := range must {
		if !t.Contains(w) {
			return "session-missing", fmt.Sprintf("after defining, completion index lacks %q", w)
		}
	}
	_, all := t.PrefixAll("")
	for _, w := range all {
		if !want[w] {
			return "session-extra", fmt.Sprintf("completion index has undefined %q", w)
		}
	}
	for i := 1; i < len(all); i++ {
		if all[i-1] >= all[i] {
			return "session-order", fmt.Sprintf("index lists %q before %q", all[i-1], all[i])
		}
	}
	return "", ""
}

func c20Session(c *core.Ctx) {
	var rec func(seq []int)
	rec = func(seq []int) {
		if len(seq) > 0 {
			parts := make([]string, len(seq))
			idx := make([]string, len(seq))
			for i, s := range seq {
				parts[i] = c20Defs[s].src
				idx[i] = fmt.Sprint(s)
			}
			text := strings.Join(parts, " ; ")
			v := c.Run(func() *core.Viol {
				cl, det := c20SessionOne(seq)
				if cl == "" {
					return nil
				}
				return &core.Viol{Class: cl, Detail: det + " after " + text, Case: core.Case{Kind: "session", Data: strings.Join(idx, ",")}, FindText: text}
			})
			out := "session-ok"
			if v != nil {
				out = v.Class
			}
			c.CountNT("session: "+text, out, true)
			c.P.Traces++
		}
		if len(seq) == 3 {
			return
		}
		for i := range c20Defs {
			rec(append(append([]int{}, seq...), i))
		}
	}
	rec(nil)
}

func parseInts(s string) []int {
	var out []int
	for _, f := range strings.Split(s, ",") {
		if f == "" {
			continue
		}
		var x int
		fmt.Sscan(f, &x)
		out = append(out, x)
	}
	return out
}

func init() {
	core.Register(&core.Check{
		ID:    "C20",
		Level: "model_checking",
		Rule: "explicit-state search over the real trie: (1) every insertion sequence without repetition up to depth d over all words of length 1..3 over a 2-3 byte alphabet (incl. bytes 0x00/0xFF in thorough); (2) BFS with merging (key = word set + observable node structure) of the full reachable state space including re-insertion; (3) every sequence <=3 of top-level definitions through repl.EvalOne with a registered trie. On every state: Contains for every universe word, PrefixAll for every prefix (exact set, byte order, once each, longest-common-prefix length) and the repl completion callback, against a sorted Go string set. Non-trivial = at least one word inserted. Lists returned by earlier prefix queries are re-checked after every later operation; the completion callback is also given lines with blanks around the prefix and the cursor before the end of the line.",
		Assume:   []string{"state key includes the observable structure, so merged states have equal futures (Insert only reads children/valid/leaf)"},
		QuickCap: 100 * time.Second, ThoroughCap: 15 * time.Minute,
		Run: runC20,
		Replay: func(c *core.Ctx, cs core.Case) *core.Viol {
			if cs.Kind == "fanout" {
				return c20Fanout(cs.Data, cs.Cfg == "true", cs)
			}
			if cs.Kind == "interleaved" {
				cl, det := c20IlRun(parseInts(cs.Data))
				if cl == "" {
					return nil
				}
				return &core.Viol{Class: cl, Detail: det, Case: cs}
			}
			if cs.Kind == "session" {
				cl, det := c20SessionOne(parseInts(cs.Data))
				if cl == "" {
					return nil
				}
				return &core.Viol{Class: cl, Detail: det, Case: cs}
			}
			name := cs.Cfg
			ml := -1
			if i := strings.Index(name, "/"); i >= 0 {
				fmt.Sscan(name[i+1:], &ml)
				name = name[:i]
			}
			u := c20Alpha(name)
			if u == nil {
				return &core.Viol{Class: "bad-replay", Case: cs}
			}
			if ml < 0 {
				ml = u.maxLen
				if name == "a-00-ff" && c.Tier != "thorough" {
					ml = 2
				}
			}
			words := c20Words(u.alpha, ml)
			prefixes := c20Prefixes(u.alpha, 4)
			if len(u.alpha) > 2 {
				prefixes = c20Prefixes(u.alpha, 3)
			}
			hist := parseInts(cs.Data)
			set := map[string]bool{}
			for _, h := range hist {
				set[words[h]] = true
			}
			t := c20Build(words, hist)
			cl, det := c20Oracle(t, set, words, prefixes)
			if cl == "" {
				return nil
			}
			return &core.Viol{Class: cl, Detail: det + " after inserting " + c20Hist(words, hist), Case: cs}
		},
	})
}
