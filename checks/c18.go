package checks

import (
	"bytes"
	"fmt"
	"os"
	"os/exec"
	"os/signal"
	"path/filepath"
	"runtime"
	"strings"
	"sync"
	"syscall"
	"time"

	"grol.io/grol/repl"
	"verif/internal/core"
)

// C18 — auto-save is crash-atomic. Every crash point (hook H2: real SIGKILL of the child process) and every
// injected write-failure position of the save path, for previous/new states of several sizes; thorough adds
// a kill / ENOSPC at every file-related syscall boundary through strace fault injection.

func c18Script(n int, tag string) string {
	if n == 0 {
		return "1 + 1" // changes nothing: auto-save must be skipped
	}
	if n < 0 {
		// shrink: delete the large values of the previous state (the new file is less than half the previous one)
		return "del(bigp)\ndel(bigp2)\ndel(bigp3)\nshrunk = 1\n"
	}
	if n == 41 {
		// a previous state of more than 8 KiB (three values just under the 4000-byte save limit)
		return c18Script(40, tag) + fmt.Sprintf("big%s2 = \"%s\"\nbig%s3 = \"%s\"\n", tag, strings.Repeat("y", 3000), tag, strings.Repeat("z", 3000))
	}
	var sb strings.Builder
	for i := 0; i < n; i++ {
		if i == 7 && n >= 40 {
			fmt.Fprintf(&sb, "big%s = \"%s\"\n", tag, strings.Repeat("x", 3000))
			continue
		}
		fmt.Fprintf(&sb, "v%s%d = %d\n", tag, i, i*3+len(tag))
	}
	sb.WriteString("func fn" + tag + "(x) { x + " + fmt.Sprint(n) + " }\n")
	return sb.String()
}

// c18Child: role executed in a fresh process: cwd = args[0]; auto-load, evaluate script (args[1] = file), auto-save.
func c18Child(args []string) int {
	if len(args) < 2 {
		return 2
	}
	if err := os.Chdir(args[0]); err != nil {
		return 2
	}
	runtime.LockOSThread() // per-thread syscall counts of the strace layer stay deterministic
	script, _ := os.ReadFile(args[1])
	x := newSess(sessCfg{})
	opts := repl.Options{AutoLoad: true, AutoSave: true}
	loadErr := repl.AutoLoad(x.s, opts)
	if len(args) > 2 && args[2] == "loadonly" {
		fmt.Printf("C18LOAD err=%v\n%s", loadErr != nil, globalsDump(x.s))
		return 0
	}
	r := x.step(string(script))
	if len(r.errs) > 0 {
		fmt.Printf("C18SCRIPT-ERROR %v\n", r.errs)
		return 3
	}
	if fs := os.Getenv("VERIF_FSIZE"); fs != "" {
		// a real write failure: the file size limit of the process (write returns EFBIG once SIGXFSZ is ignored)
		var lim uint64
		fmt.Sscan(fs, &lim)
		signal.Ignore(syscall.SIGXFSZ)
		_ = syscall.Setrlimit(syscall.RLIMIT_FSIZE, &syscall.Rlimit{Cur: lim, Max: lim})
	}
	err := repl.AutoSave(x.s, opts)
	if err != nil {
		fmt.Printf("C18SAVE error: %v\n", err)
		return 4
	}
	fmt.Println("C18SAVE ok")
	return 0
}

type c18Pair struct {
	prevN, newN int
	link        bool // the previous ./.gr is a symbolic link to a file kept elsewhere
}

func c18ReadGr(dir string) (string, bool) {
	b, err := os.ReadFile(filepath.Join(dir, ".gr"))
	if err != nil {
		return "", false
	}
	return string(b), true
}

type c18Env struct {
	otherFS string // a writable directory on another file system than tmp ("" if none)
	self    string
	tmp     string
	mu      sync.Mutex
	nextID  int
}

func (e *c18Env) dir() string {
	e.mu.Lock()
	e.nextID++
	d := filepath.Join(e.tmp, fmt.Sprintf("d%d", e.nextID))
	e.mu.Unlock()
	_ = os.MkdirAll(d, 0o755)
	return d
}

func (e *c18Env) run(dir, script string, extraEnv []string, mode string, wrap []string) (out string, exit int, killed bool) {
	sf := filepath.Join(e.tmp, fmt.Sprintf("s-%x.gr", core.Hash(script)))
	if _, err := os.Stat(sf); err != nil {
		_ = os.WriteFile(sf, []byte(script), 0o644)
	}
	args := []string{"C18-child", dir, sf}
	if mode != "" {
		args = append(args, mode)
	}
	var cmd *exec.Cmd
	if len(wrap) > 0 {
		cmd = exec.Command(wrap[0], append(append(append([]string{}, wrap[1:]...), e.self), args...)...)
	} else {
		cmd = exec.Command(e.self, args...)
	}
	cmd.Env = append(append(os.Environ(), "GOMAXPROCS=1"), extraEnv...)
	if e.otherFS != "" {
		// temporary files created "somewhere else" would land on another file system than the state file's directory
		cmd.Env = append(cmd.Env, "TMPDIR="+e.otherFS)
	}
	var buf bytes.Buffer
	cmd.Stdout = &buf
	cmd.Stderr = &buf
	err := cmd.Run()
	out = buf.String()
	if err != nil {
		if ee, ok := err.(*exec.ExitError); ok {
			exit = ee.ExitCode()
			if exit == -1 || strings.Contains(ee.String(), "killed") {
				killed = true
			}
			return
		}
		return out, -2, false
	}
	return out, 0, false
}

// prepare builds a directory holding the previous state file (nil bytes = no file).
func (e *c18Env) prepare(prev string, hasPrev bool) string {
	return e.prepareLink(prev, hasPrev, false)
}

func (e *c18Env) prepareLink(prev string, hasPrev, link bool) string {
	d := e.dir()
	if hasPrev && link {
		_ = os.MkdirAll(filepath.Join(d, "dotfiles"), 0o755)
		_ = os.WriteFile(filepath.Join(d, "dotfiles", "state.gr"), []byte(prev), 0o644)
		_ = os.Symlink(filepath.Join("dotfiles", "state.gr"), filepath.Join(d, ".gr"))
		return d
	}
	if hasPrev {
		_ = os.WriteFile(filepath.Join(d, ".gr"), []byte(prev), 0o644)
	}
	return d
}

func runC18(c *core.Ctx) {
	self, _ := os.Executable()
	tmp, err := os.MkdirTemp("", "c18-")
	if err != nil {
		return
	}
	defer os.RemoveAll(tmp)
	env := &c18Env{self: self, tmp: tmp}
	for _, cand := range []string{"/dev/shm", "/run", "/var/tmp", "/root"} {
		var a, b syscall.Stat_t
		if syscall.Stat(cand, &a) == nil && syscall.Stat(tmp, &b) == nil && a.Dev != b.Dev {
			if d, err := os.MkdirTemp(cand, "c18tmp-"); err == nil {
				env.otherFS = d
				defer os.RemoveAll(d)
				break
			}
		}
	}
	if env.otherFS == "" {
		c.Note("no_second_filesystem", 1)
	}
	pairs := []c18Pair{{0, 1, false}, {1, 5, false}, {5, 1, false}, {5, 40, false}, {41, -1, false}, {1, 5, true}, {5, 1, true}}
	if !c.Quick() {
		pairs = nil
		for _, p := range []int{0, 1, 5, 40} {
			for _, n := range []int{1, 5, 40, 0} {
				pairs = append(pairs, c18Pair{p, n, false})
			}
		}
		pairs = append(pairs, c18Pair{41, -1, false}, c18Pair{41, 1, false}, c18Pair{1, 5, true}, c18Pair{5, 1, true}, c18Pair{40, 5, true})
	}
	var bounds []string
	totalPoints := 0
	fsizePoints := 0
	report := func(class, detail, casekey string) {
		c.Report(&core.Viol{Class: class, Detail: detail, Case: core.Case{Kind: "crash", Data: casekey}, FindText: casekey})
	}
	for _, pr := range pairs {
		// previous state file: produced by a clean run of the previous script in an empty directory
		prevBytes, hasPrev := "", false
		if pr.prevN > 0 {
			d := env.prepare("", false)
			if out, code, _ := env.run(d, c18Script(pr.prevN, "p"), nil, "", nil); code != 0 {
				report("harness: clean previous run failed", out, fmt.Sprint(pr))
				continue
			}
			prevBytes, hasPrev = c18ReadGr(d)
		}
		newScript := c18Script(pr.newN, "n")
		// clean run: expected new bytes + hook points hit
		d := env.prepareLink(prevBytes, hasPrev, pr.link)
		hooklog := filepath.Join(tmp, fmt.Sprintf("hook-%d-%d-%v.log", pr.prevN, pr.newN, pr.link))
		out, code, _ := env.run(d, newScript, []string{"VERIF_HOOKLOG=" + hooklog}, "", nil)
		if code != 0 {
			report("harness: clean run failed", out, fmt.Sprint(pr))
			continue
		}
		newBytes, hasNew := c18ReadGr(d)
		if pr.newN == 0 {
			// nothing changed: the save must be skipped and the file untouched
			if hasNew != hasPrev || newBytes != prevBytes {
				report("unchanged-state-rewrites-file", fmt.Sprintf("prev=%q now=%q", trunc(prevBytes, 100), trunc(newBytes, 100)), fmt.Sprint(pr))
			}
		}
		// expected dumps of the two legal states (what a fresh session auto-loads)
		loadDump := func(content string, has bool) string {
			dd := env.prepare(content, has)
			o, _, _ := env.run(dd, "", nil, "loadonly", nil)
			return o
		}
		prevDump := loadDump(prevBytes, hasPrev)
		newDump := loadDump(newBytes, hasNew)
		// what a later, clean session that changes the state a little must leave behind, from either legal state
		// (leftovers of the interrupted save must not leak into it)
		const followScript = "fz = 1"
		followOf := func(content string, has bool) (string, bool) {
			dd := env.prepare(content, has)
			env.run(dd, followScript, nil, "", nil)
			return c18ReadGr(dd)
		}
		followPrev, hasFollowPrev := followOf(prevBytes, hasPrev)
		followNew, hasFollowNew := followOf(newBytes, hasNew)
		hb, _ := os.ReadFile(hooklog)
		var points []string
		counts := map[string]int{}
		for _, name := range strings.Split(strings.TrimSpace(string(hb)), "\n") {
			if name == "" {
				continue
			}
			counts[name]++
			points = append(points, fmt.Sprintf("%s#%d", name, counts[name]))
		}
		totalPoints += len(points)
		check := func(kind, point string, dirAfter string, saveOut string, exit int) {
			key := fmt.Sprintf("prev=%d new=%d %s=%s", pr.prevN, pr.newN, kind, point)
			if pr.link {
				key = "symlinked " + key
			}
			got, has := c18ReadGr(dirAfter)
			okPrev := has == hasPrev && got == prevBytes
			okNew := has == hasNew && got == newBytes
			outcome := "file=previous"
			if okNew && !okPrev {
				outcome = "file=new"
			}
			if !okPrev && !okNew {
				outcome = "file-neither-previous-nor-new"
				report(kind+":state-file-neither-previous-nor-new", fmt.Sprintf("%s: .gr is %q (exists=%v); previous %q, new %q", key, trunc(got, 200), has, trunc(prevBytes, 120), trunc(newBytes, 120)), key)
			} else {
				// what the next session restores
				o, _, _ := env.run(dirAfter, "", nil, "loadonly", nil)
				if o != prevDump && o != newDump {
					outcome = "reload-neither"
					report(kind+":reload-neither-previous-nor-new", fmt.Sprintf("%s: next session loads %q", key, trunc(o, 300)), key)
				}
			}
			if (okPrev || okNew) && !strings.HasPrefix(point, "fsize#") {
				fo, fcode, _ := env.run(dirAfter, followScript, nil, "", nil)
				fgot, fhas := c18ReadGr(dirAfter)
				want, whas := followPrev, hasFollowPrev
				if okNew && !okPrev {
					want, whas = followNew, hasFollowNew
				}
				if fcode != 0 || fhas != whas || fgot != want {
					outcome = "later-save-differs"
					report(kind+":later-clean-save-differs", fmt.Sprintf("%s: a later clean session (%s) left .gr = %q (exit %d %s), expected %q", key, followScript, trunc(fgot, 200), fcode, trunc(fo, 80), trunc(want, 200)), key)
				}
			}
			if kind == "fail" {
				if !strings.Contains(saveOut, "C18SAVE error") {
					outcome = "failed-save-not-reported"
					report("fail:failed-save-not-reported", fmt.Sprintf("%s: AutoSave did not return the injected error: %q exit=%d", key, trunc(saveOut, 200), exit), key)
				} else if !okPrev {
					outcome = "failed-save-damaged-previous"
					report("fail:failed-save-damaged-previous", fmt.Sprintf("%s: .gr changed although the save failed", key), key)
				}
			}
			c.CountNT(key, kind+":"+outcome, true)
		}
		// every crash point
		var wg sync.WaitGroup
		sem := make(chan struct{}, 16)
		var mu sync.Mutex
		for _, pt := range points {
			wg.Add(1)
			go func(pt string) {
				defer wg.Done()
				sem <- struct{}{}
				defer func() { <-sem }()
				dd := env.prepareLink(prevBytes, hasPrev, pr.link)
				o, code, killed := env.run(dd, newScript, []string{"VERIF_CRASH=" + pt}, "", nil)
				mu.Lock()
				defer mu.Unlock()
				if !killed && code == 0 {
					report("harness: crash point not hit", pt+" "+o, pt)
					return
				}
				check("crash", pt, dd, o, code)
			}(pt)
		}
		// every write-failure position
		for i := 1; i <= counts["save.binding"]; i++ {
			wg.Add(1)
			go func(i int) {
				defer wg.Done()
				sem <- struct{}{}
				defer func() { <-sem }()
				dd := env.prepareLink(prevBytes, hasPrev, pr.link)
				o, code, _ := env.run(dd, newScript, []string{fmt.Sprintf("VERIF_FAIL=save.binding#%d", i)}, "", nil)
				mu.Lock()
				defer mu.Unlock()
				check("fail", fmt.Sprintf("save.binding#%d", i), dd, o, code)
			}(i)
		}
		// a real write failure at byte positions of the new file (file size limit of the process): every position of a
		// small file, else a stride plus every position of the last 64 bytes
		if hasNew && pr.newN > 0 && pr.newN <= 5 {
			var lims []int
			L := len(newBytes)
			if L <= 400 && !pr.link && pr.prevN == 0 {
				for n := 0; n < L; n++ {
					lims = append(lims, n)
				}
			} else if L <= 400 {
				for n := 0; n < L; n += 5 {
					lims = append(lims, n)
				}
				lims = append(lims, L-2, L-1)
			} else {
				for n := 0; n < L-64; n += L / 48 {
					lims = append(lims, n)
				}
				for n := L - 64; n < L; n++ {
					lims = append(lims, n)
				}
			}
			fsizePoints += len(lims)
			for _, n := range lims {
				wg.Add(1)
				go func(n int) {
					defer wg.Done()
					sem <- struct{}{}
					defer func() { <-sem }()
					dd := env.prepareLink(prevBytes, hasPrev, pr.link)
					o, code, _ := env.run(dd, newScript, []string{fmt.Sprintf("VERIF_FSIZE=%d", n)}, "", nil)
					mu.Lock()
					defer mu.Unlock()
					check("fail", fmt.Sprintf("fsize#%d", n), dd, o, code)
				}(n)
			}
		}
		wg.Wait()
		// thorough: a kill and an ENOSPC at every file-syscall boundary (strace fault injection)
		if !c.Quick() && pr.newN > 0 && pr.newN <= 5 {
			if _, err := exec.LookPath("strace"); err == nil {
				set := "openat,write,rename,renameat,renameat2,close,unlink,unlinkat,fsync,fdatasync,ftruncate,chmod,fchmod"
				// number of such syscalls in a clean traced run
				dd := env.prepare(prevBytes, hasPrev)
				tf := filepath.Join(tmp, "trace-count.log")
				env.run(dd, newScript, nil, "", []string{"strace", "-f", "-qq", "-e", "trace=" + set, "-o", tf})
				tb, _ := os.ReadFile(tf)
				total := strings.Count(string(tb), "\n")
				for n := 1; n <= total; n++ {
					for _, inj := range []string{"signal=SIGKILL", "error=ENOSPC"} {
						wg.Add(1)
						go func(n int, inj string) {
							defer wg.Done()
							sem <- struct{}{}
							defer func() { <-sem }()
							d2 := env.prepare(prevBytes, hasPrev)
							what := set
							if inj == "error=ENOSPC" {
								what = "write"
							}
							o, code, _ := env.run(d2, newScript, nil, "", []string{"strace", "-f", "-qq", "-o", "/dev/null", "-e", "trace=" + set, "-e", fmt.Sprintf("inject=%s:%s:when=%d", what, inj, n)})
							mu.Lock()
							defer mu.Unlock()
							check("syscall-"+strings.SplitN(inj, "=", 2)[1], fmt.Sprint(n), d2, o, code)
						}(n, inj)
					}
				}
				wg.Wait()
				c.Note("syscall_boundaries", int64(total))
			} else {
				c.Note("strace_unavailable", 1)
			}
		}
		c.P.Traces++
	}
	bounds = append(bounds, fmt.Sprintf("%d (previous, new) state pairs over sizes {none,1,5,40 bindings incl. a 3kB value, a 9 kB state shrunk to under half; TMPDIR on another file system} x every crash point of the clean run (%d points in total: before/after creating the temporary file, after each written binding, after the last write, after the rename) x every write-failure position (injected per binding; a real EFBIG through the process file size limit at %d byte positions); the previous ./.gr a regular file or a symbolic link to a file kept elsewhere", len(pairs), totalPoints, fsizePoints))
	if !c.Quick() {
		bounds = append(bounds, "plus SIGKILL and ENOSPC injected at every file-syscall boundary of the child (strace fault injection) for the pairs with <=5 new bindings")
	}
	c.P.Bound = strings.Join(bounds, "; ")
}

func init() {
	core.RegisterChild("C18-child", c18Child)
	core.Register(&core.Check{
		ID:          "C18",
		Level:       "fault_enumeration",
		Rule:        "for each (previous state, new state) pair a child process chdir's into a fresh scratch directory holding the previous ./.gr, runs the real repl.AutoLoad, evaluates the script producing the new state and calls the real repl.AutoSave; the crash points hit by a clean run are discovered through the build-tag hook log, then one child per crash point is killed with a real SIGKILL at that point (no deferred code, no flush) and one child per binding gets an injected write failure; thorough adds SIGKILL / ENOSPC at every file-syscall boundary via strace fault injection. Oracle: ./.gr afterwards is byte-identical to the previous or to the new file (both known from clean runs) and a second child's AutoLoad restores exactly one of the two states; an injected failure is returned by AutoSave and leaves the previous file untouched; an unchanged state does not rewrite the file; a later clean session started in the same directory (which adds one binding) leaves exactly the file it leaves when started from that legal state in a clean directory (leftovers of the interrupted save do not leak into later saves). Non-trivial = every (pair, point). Real write failures (EFBIG through the process file-size limit) at byte positions of the new file; the previous ./.gr also as a symbolic link to a file kept elsewhere.",
		Assume:      []string{"process death only (the property does not claim durability across power loss: there is no fsync before the rename)", "leftover .grol*.tmp files are allowed"},
		QuickCap:    100 * time.Second,
		ThoroughCap: 20 * time.Minute,
		Workers:     1,
		Run:         runC18,
		Replay: func(c *core.Ctx, cs core.Case) *core.Viol {
			return &core.Viol{Class: "replay-by-rerun", Detail: "C18 cases name the state pair and the crash point (VERIF_CRASH=<point>): re-run ./run.sh C18 quick, or run bin/vcheck C18-child <dir> <script> with VERIF_CRASH set: " + cs.Data, Case: cs}
		},
	})
}
