package checks

import (
	"fmt"
	"strings"
	"time"

	"verif/internal/core"
)

// C19 — constants cannot be changed by any path.

type c19Val struct {
	src   string
	other string // a different value of the same shape
	kind  string // int float string bool nil array map func
}

var c19Vals = []c19Val{
	{"5", "6", "int"}, {"1.5", "2.5", "float"}, {`"s"`, `"t"`, "string"}, {"true", "false", "bool"}, {"nil", "0", "nil"},
	{"[1, 2]", "[1, 3]", "array"}, {"[1, 2, 3, 4, 5, 6, 7, 8, 9]", "[1, 2, 3, 4, 5, 6, 7, 8, 10]", "array"},
	{`{"k": 1, 0: 2}`, `{"k": 2, 0: 2}`, "map"}, {`{"k": 1, 0: 2, 1: 3, 2: 4, 3: 5}`, `{"k": 2, 0: 2, 1: 3, 2: 4, 3: 5}`, "map"},
	{`[[1, 2, 3, 4, 5, 6, 7, 8, 9], {"k": 1, 0: 2, 1: 3, 2: 4, 3: 5}]`, "[[1], {}]", "array"},
	{"func(x) { x + 1 }", "func(x) { x + 2 }", "func"}, {"x => x", "x => x * 2", "func"},
	{"[0, 1, 2, 3, 4, 5, 6, 7, 8, 9, 10, 11]", "[0, 1, 2, 3, 4, 5, 6, 7, 8, 9, 10, 12]", "array"},
	{"2.0", "3.0", "float"}, {"0", "1", "int"}, {"-0.0", "1.0", "float"},
}

// mutation attempts; %C = constant name, %v = the new value
var c19Paths = []string{
	"%C = %v", "%C := %v", "%C++", "%C--", "++%C", "--%C", "%C[0] = %v", "%C[-1] = %v", "%C.k = %v", `%C["k"] = %v`,
	"del(%C[0])", "del(%C.k)", "for %C = 3 { }", "for %C = 3 { println(\"in\", %C) }", "for %C = 1:3 { println(\"in\", %C) }", "for %C = [7] { println(\"in\", %C) }", "func(%C) { println(\"in\", %C) }(%v)", "for %C = 0:3 { }", "for %C = [7, 8] { }", "for %C := 2 { }",
	"func(%C) { %C }(%v)", "func(%C) { %C = 1; %C }(%v)", "func(a, %C) { %C }(1, %v)", "func() { %C = %v }()", "g9 = func() { %C = %v }; g9()", `eval("%C = 77")`, `eval("%C[0] = 77")`,
	"b9 = %C; b9[0] = %v", "b9 = %C; b9.k = %v", "%C = %C + [%v]", "%C = %C + {9: %v}", "func() { %C := %v; %C }()", "f9 = func(x) { x[0] = %v; x }; f9(%C)", "f9 = func(x) { x.k = %v; x }; f9(%C)",
	"func(U9) { U9 = U9 + 1; U9 }(3)", "func(U9) { ++U9; U9 }(3)", "func(U9) { for U9 = 2 { }; U9 }(3)", "func(U9) { U9 = \"s\"; U9 }(3)", "for U8 = 2 { U8 = 5 }", "func(a, U9) { U9-- }(1, 2)",
	"[%C][0][0]", "%C = %C", "func(x) { %C = x }(%v)", "for e9 = [%v] { %C = e9 }", "x9 = %C; x9 = %v", "%C, b9 = %v",
	"f9 = func(..) { %C = ..[0] }; f9(%v)", "m9 = {\"c\": %C}; m9.c = %v", "func %C() { 1 }", "%C = func() { 2 }", "del(%C[1])", "%C[1] = %v", "b9 = %C + []; b9[0] = %v", "b9 = %C[0:]; b9[0] = %v", "b9 = rest(%C); b9[0] = %v",
	// slices of the constant (they may share its storage): re-binding to a strict prefix, appending to a prefix
	"%C = %C[0:10]", "%C = %C[0:1]", "%C = %C[1:]", "%C := %C[0:10]", "b9 = %C[0:10] + %v", "b9 = %C[0:10]; b9 = b9 + %v; c9 = b9 + 0", "b9 = %C[0:1] + [%v]", "b9 = %C[0:10]; b9[0] = %v",
	"b9 = %C[0:10] + [%v, %v]", "func(x) { x = x[0:10] + %v; x }(%C)", "b9 = %C[2:9]; b9 = b9 + %v",
}

var c19Scopes = []struct{ name, tpl string }{
	{"top", "%s"},
	{"func", "func() { %s; println(\"in\", %C) }()"},
	{"nested", "func() { func() { %s; println(\"in\", %C) }() }()"},
	{"loop", "for 2 { %s; println(\"in\", %C) }"},
	{"func-loop", "func() { for k9 = 2 { %s }; println(\"in\", %C) }()"},
}

// c19Twin is the same number in the other numeric type ("" when there is none).
func c19Twin(src string) string {
	switch src {
	case "5":
		return "5.0"
	case "2.0":
		return "2"
	case "-0.0":
		return "0"
	case "0":
		return "-0.0"
	}
	return ""
}

func c19Render(tpl, cname, v string) string {
	return strings.ReplaceAll(strings.ReplaceAll(tpl, "%C", cname), "%v", v)
}

// c19One: define the constant, run the attempts, observe.
func c19One(cname string, val c19Val, attempts []string, labels []string) *core.Viol {
	label := func(i int) string {
		if i < len(labels) {
			return labels[i]
		}
		if i < len(attempts) {
			return trunc(reDigits.ReplaceAllString(attempts[i], "N"), 60)
		}
		return "del/rebind"
	}
	text := cname + " = " + val.src + " ;; " + strings.Join(attempts, " ;; ")
	cs := core.Case{Kind: "const", Data: text}
	var recs [2][]stepRec
	for k, noReg := range []bool{false, true} {
		x := newSess(sessCfg{noReg: noReg})
		def := x.step(cname + " = " + val.src)
		if len(def.errs) > 0 {
			return &core.Viol{Class: "harness: definition failed", Detail: def.String(), Case: cs}
		}
		orig := implEval(x, cname, 10000)
		origIn := x.step("println(\"in\", " + cname + ")").out
		for i, at := range attempts {
			r := x.step(at)
			recs[k] = append(recs[k], r)
			after := implEval(x, cname, 10000)
			atk := label(i)
			if after.isErr || after.val != orig.val {
				return &core.Viol{Class: "constant-changed@" + atk, Detail: fmt.Sprintf("noReg=%v: after attempt %d (%q, result %s) %s evaluates to %s %q, originally %s", noReg, i, at, r, cname, after.val, after.errText, orig.val), Case: cs, FindText: text}
			}
			// inside the attempted scope the name must not evaluate to anything else either (when the attempt did not fail)
			if len(r.errs) == 0 && !r.panicked {
				for _, line := range strings.Split(r.out, "\n") {
					if strings.HasPrefix(line, "in ") && line+"\n" != origIn {
						return &core.Viol{Class: "constant-differs-in-scope@" + atk, Detail: fmt.Sprintf("noReg=%v: attempt %q succeeded and inside its scope %s printed %q, originally %q", noReg, at, cname, line, strings.TrimSpace(origIn)), Case: cs, FindText: text}
					}
				}
			}
			if r.panicked {
				return &core.Viol{Class: "panic@" + atk, Detail: r.String(), Case: cs, FindText: text}
			}
		}
		// the permitted path: explicit deletion, then rebinding
		d := x.step("del(" + cname + ")")
		re := x.step(cname + " = " + val.other)
		now := implEval(x, cname, 10000)
		if len(d.errs) > 0 || len(re.errs) > 0 || now.isErr || (now.val == orig.val && val.kind != "func") {
			return &core.Viol{Class: "del-then-rebind-fails", Detail: fmt.Sprintf("noReg=%v: del: %s rebind: %s value now %s %s", noReg, d, re, now.val, now.errText), Case: cs, FindText: text}
		}
		recs[k] = append(recs[k], d, re)
	}
	for i := range recs[0] {
		if !sameRec(recs[0][i], recs[1][i]) {
			at := "del/rebind"
			if i < len(attempts) {
				at = attempts[i]
			}
			return &core.Viol{Class: "registers-differ@" + label(i), Detail: fmt.Sprintf("attempt %q: registers on: %s ; registers off: %s", at, recs[0][i], recs[1][i]), Case: cs, FindText: text}
		}
	}
	return nil
}

// Several bindings of one constant name (K): a global one, one local to a function and captured by a closure, one that
// is a parameter captured by a closure. Each binding keeps its value whatever happens to the others.
var c19ClosureActions = []string{
	"func mk() { K = 1; () => K }; h = mk()", // closure over a function-local constant
	"func mk2(K) { () => K }; h2 = mk2(10)",  // closure over a constant-named parameter
	"K = 2", "K = 3", "del(K)", "println(K)", "func rd() { K }; println(rd())", "println(h())", "println(h2())", "func wr() { K = 4 }; wr()", "x = K",
}

func c19Closures(c *core.Ctx) int {
	depth := 5
	if c.Quick() {
		depth = 4
	}
	n := 0
	enumTuples(len(c19ClosureActions), depth, func(idx []int) bool {
		if c.P.Evals&0xff == 0 && c.Expired() {
			return false
		}
		key := fmt.Sprint(idx)
		n++ // (all workers enumerate the same histories; each runs its share)
		if !c.Mine("closures", key) {
			return true
		}
		var acts []string
		for _, i := range idx {
			acts = append(acts, c19ClosureActions[i])
		}
		cs := core.Case{Kind: "closures", Data: strings.Join(acts, " ;; ")}
		c.Current(cs)
		v := c.Run(func() *core.Viol {
			var recs [2][]string
			for k, noReg := range []bool{false, true} {
				x := newSess(sessCfg{noReg: noReg})
				global := "" // value of the global K, "" = unbound
				hasH, hasH2 := false, false
				for step, i := range idx {
					r := x.step(c19ClosureActions[i])
					recs[k] = append(recs[k], r.String())
					failed := len(r.errs) > 0 || r.panicked
					switch i {
					case 0:
						hasH = hasH || !failed
					case 1:
						hasH2 = hasH2 || !failed
					case 2, 3, 9:
						nv := map[int]string{2: "2", 3: "3", 9: "4"}[i]
						if global == "" {
							if i != 9 { // (inside wr() an unbound K is a local of wr)
								global = nv
							}
						} else if global != nv && !failed {
							return &core.Viol{Class: "constant-changed@closures", Detail: fmt.Sprintf("noReg=%v step %d: %q succeeded although the global K is %s", noReg, step, c19ClosureActions[i], global), Case: cs}
						}
					case 4:
						if !failed {
							global = ""
						}
					}
					if r.panicked {
						return &core.Viol{Class: "panic@closures", Detail: r.String(), Case: cs}
					}
					// every binding still has its value
					want := map[string]string{}
					if hasH {
						want["h()"] = "1"
					}
					if hasH2 {
						want["h2()"] = "10"
					}
					if global != "" {
						want["K"] = global
						want["func rd9() { K }; rd9()"] = global
					}
					for expr, w := range want {
						got := implEval(x, expr, 10000)
						if got.isErr || got.val != "I:"+w {
							return &core.Viol{Class: "constant-changed@closures", Detail: fmt.Sprintf("noReg=%v after step %d (%q): %s evaluates to %q %s, its binding holds %s", noReg, step, c19ClosureActions[i], expr, got.val, got.errText, w), Case: cs}
						}
					}
				}
			}
			for i := range recs[0] {
				if recs[0][i] != recs[1][i] {
					return &core.Viol{Class: "registers-differ@closures", Detail: fmt.Sprintf("step %d: registers on %s, off %s", i, recs[0][i], recs[1][i]), Case: cs}
				}
			}
			return nil
		})
		out := "unchanged"
		if v != nil {
			out = v.Class
		}
		c.Count("closures: "+key, out, true)
		c.P.Traces++
		c.P.Transitions += int64(len(idx)) * 2
		return true
	})
	return n
}

func runC19(c *core.Ctx) {
	do := func(cname string, val c19Val, attempts []string, labels []string) bool {
		if c.P.Evals&0xff == 0 && c.Expired() {
			return false
		}
		key := cname + "=" + val.src + " ;; " + strings.Join(attempts, " ;; ")
		if !c.Mine("const", key) {
			return true
		}
		c.Current(core.Case{Kind: "const", Data: key})
		v := c.Run(func() *core.Viol { return c19One(cname, val, attempts, labels) })
		out := "unchanged"
		if v != nil {
			out = v.Class
		}
		c.Count("const: "+trunc(key, 180), out, true)
		c.P.Traces++
		c.P.Transitions += int64(len(attempts)+3) * 2
		return true
	}
	ok := true
	names := []string{"C", "C2_X", "X0", "V10_A"}
	// singles: value x path x scope x new value equal/different
	for _, cname := range names {
		for _, val := range c19Vals {
			for _, p := range c19Paths {
				for _, sc := range c19Scopes {
					nvs := []string{val.other, val.src, "77", `"z"`}
					if tw := c19Twin(val.src); tw != "" {
						nvs = append(nvs, tw) // the same number in the other numeric type
					}
					for _, nv := range nvs {
						at := c19Render(strings.Replace(sc.tpl, "%s", p, 1), cname, nv)
						if ok = do(cname, val, []string{at}, []string{p + " [" + sc.name + "]"}); !ok {
							break
						}
					}
				}
			}
		}
	}
	bound := fmt.Sprintf("constants %v x %d values x %d mutation paths x %d scopes x 4 new values (equal, different same shape, int, string)", names, len(c19Vals), len(c19Paths), len(c19Scopes))
	if ok {
		// ordered pairs of attempts (top level and in a function)
		vals := c19Vals
		if c.Quick() {
			vals = []c19Val{c19Vals[0], c19Vals[5], c19Vals[6], c19Vals[8]}
		}
		for _, val := range vals {
			for _, p1 := range c19Paths {
				for _, p2 := range c19Paths {
					a1 := c19Render(p1, "C", val.other)
					a2 := c19Render(strings.Replace(c19Scopes[1].tpl, "%s", p2, 1), "C", val.other)
					if ok = do("C", val, []string{a1, a2}, []string{p1 + " [top]", p2 + " [func]"}); !ok {
						break
					}
				}
			}
		}
		bound += fmt.Sprintf("; every ordered pair of attempts (second one inside a function) for %d values", len(vals))
	}
	if ok {
		// every constant-shaped name of <=4 characters over {A Z 1 _} x the paths that go through the name classifier
		var cnames []string
		var gen func(cur string)
		gen = func(cur string) {
			if cur != "" {
				cnames = append(cnames, cur)
			}
			if len(cur) == 4 {
				return
			}
			for _, ch := range "AZ1_" {
				if cur == "" && (ch == '1' || ch == '_') {
					continue
				}
				gen(cur + string(ch))
			}
		}
		gen("")
		paths := []string{"%C = %v", "%C := %v", "%C++", "--%C", "%C[0] = %v", "del(%C[0])", "for %C = 3 { println(\"in\", %C) }", "for %C = [7] { println(\"in\", %C) }",
			"func(%C) { println(\"in\", %C) }(%v)", "func() { %C = %v }()", "func() { func() { %C = %v }() }()", "func(%C) { %C = %v; println(\"in\", %C) }(1)", "%C.k = %v"}
		for _, cname := range cnames {
			for _, val := range []c19Val{c19Vals[0], c19Vals[5], c19Vals[8]} {
				for _, p := range paths {
					for _, sc := range c19Scopes[:2] {
						at := c19Render(strings.Replace(sc.tpl, "%s", p, 1), cname, val.other)
						if ok = do(cname, val, []string{at}, []string{p + " [" + sc.name + "] name-shape"}); !ok {
							break
						}
					}
				}
			}
		}
		bound += fmt.Sprintf("; every constant-shaped name of <=4 characters over {A Z 1 _} (%d names) x %d paths x 3 values x 2 scopes", len(cnames), len(paths))
	}
	if ok {
		n := c19Closures(c)
		bound += fmt.Sprintf("; %d histories of <=%d steps over constants of the same name bound in several scopes (global, function-local captured by a closure, parameter captured by a closure): define, read from each scope, redefine, delete, rebind - against a reference model of each binding", n, map[bool]int{true: 4, false: 5}[c.Quick()])
	}
	if ok && !c.Quick() {
		// thorough: every ordered triple of attempts (top level, in a function, in a loop in a function) for three values
		for _, val := range []c19Val{c19Vals[0], c19Vals[8], c19Vals[len(c19Vals)-1]} {
			for _, p1 := range c19Paths {
				for _, p2 := range c19Paths {
					for _, p3 := range c19Paths {
						a1 := c19Render(p1, "C", val.other)
						a2 := c19Render(strings.Replace(c19Scopes[1].tpl, "%s", p2, 1), "C", val.other)
						a3 := c19Render(strings.Replace(c19Scopes[4].tpl, "%s", p3, 1), "C", val.other)
						if ok = do("C", val, []string{a1, a2, a3}, []string{p1 + " [top]", p2 + " [func]", p3 + " [func-loop]"}); !ok {
							break
						}
					}
					if !ok {
						break
					}
				}
				if !ok {
					break
				}
			}
		}
		if ok {
			bound += "; every ordered triple of attempts (top level, function, loop in a function) for 3 values"
		}
	}
	c.P.States = c.P.Traces
	if ok {
		c.P.Bound = bound + "; registers on and off; del + rebind checked to work after every case"
	}
}

func init() {
	core.Register(&core.Check{
		ID:          "C19",
		Level:       "model_checking",
		Rule:        "exhaustive product on one session per case: an all-upper-case name bound to each of 12 values (scalars, nil, small and large arrays and maps, nested large containers, named function, lambda) x 45 mutation paths (=, :=, ++/--, index and dot assignment, element deletion, loop-variable and parameter use, assignment from nested functions and closures called later, eval(), aliases, + merges, passing to mutating functions, slices/rest of it) x 5 scopes (top level, function, nested function, loop body, loop inside function) x 4 new values, plus every ordered pair of attempts. Invariant after every attempt: the name evaluates at top level to a dump equal to the original; a succeeding attempt never makes it print differently inside its scope; no panic; identical records with registers on and off; explicit del() then rebinding works. Non-trivial = every case; distinct by text. New values include the same number in the other numeric type; every constant-shaped name of <=4 characters over {A Z 1 _}; histories of <=4 (thorough 5) steps over same-named constants bound globally, function-locally (captured by a closure) and as a captured parameter, against a model of each binding.",
		Assume:      []string{"observation through the evaluator's own Eval of the constant's name and println inside scopes"},
		QuickCap:    100 * time.Second,
		ThoroughCap: 20 * time.Minute,
		HangLimit:   240 * time.Second,
		Run:         runC19,
		Replay: func(c *core.Ctx, cs core.Case) *core.Viol {
			parts := strings.Split(cs.Data, " ;; ")
			def := parts[0]
			eq := strings.Index(def, "=")
			cname := strings.TrimSpace(def[:eq])
			src := strings.TrimSpace(def[eq+1:])
			for _, v := range c19Vals {
				if v.src == src {
					return c19One(cname, v, parts[1:], nil)
				}
			}
			return &core.Viol{Class: "bad-replay", Case: cs}
		},
	})
}
