package checks

import (
	"fmt"
	"fortio.org/log"
	"math"
	"os"
	"os/exec"
	"path/filepath"
	"strings"
	"time"

	"grol.io/grol/repl"
	"verif/internal/core"
	"verif/internal/gen"
	"verif/internal/obs"
	"verif/internal/ref"
)

// C14 — saved state loads back to the same state.

type c14Binding struct {
	name string
	def  string // the input that creates it
	fn   bool   // function-valued: compared by behaviour on a probe set
	// for data values: the reference value (nil when not modelled, then compared between the two states only)
	val *ref.Value
}

var c14Probes = []string{"()", "(1)", "(-2, 3)", `("s")`, "([1, 2], 0)", "(nil, true, 1.5)"}

func c14Save(x *sess, limit int) string {
	var sb strings.Builder
	x.s.MaxValueLen = limit
	_, _ = x.s.SaveGlobals(&sb)
	return sb.String()
}

// degrade computes the dump the reloaded value has under the known findings K1 (integral floats are saved
// without a decimal point and reload as integers) and K2 (min int64 reloads as a float).
func c14Degrade(v ref.Value) ref.Value {
	switch v.Kind {
	case ref.KFloat:
		if v.F == math.Trunc(v.F) && !math.IsInf(v.F, 0) && math.Abs(v.F) < 9.2e18 {
			return ref.Int(int64(v.F)) // (-0.0 is saved as -0, which reloads as the integer 0)
		}
		if v.F == math.Trunc(v.F) && !math.IsInf(v.F, 0) && math.Abs(v.F) >= 9.2e18 {
			return v // too big for an integer literal: parsed back as a float
		}
	case ref.KInt:
		if v.I == math.MinInt64 {
			return ref.Float(-9.223372036854775808e18)
		}
	case ref.KArray:
		out := make([]ref.Value, len(v.A))
		for i := range v.A {
			out[i] = c14Degrade(v.A[i])
		}
		return ref.Value{Kind: ref.KArray, A: out}
	case ref.KMap:
		m := ref.NewMap()
		for _, p := range v.M {
			m = ref.MapSet(m, c14Degrade(p.K), c14Degrade(p.V))
		}
		return m
	}
	return v
}

func c14One(binds []c14Binding, limit int) (*core.Viol, bool) {
	var defs []string
	for _, b := range binds {
		defs = append(defs, b.def)
	}
	text := strings.Join(defs, " ;; ")
	cs := core.Case{Kind: "env", Cfg: fmt.Sprint(limit), Data: text}
	mk := func(class, detail string) *core.Viol {
		return &core.Viol{Class: class, Detail: detail, Case: cs, FindText: text}
	}
	// consequences of the known printer findings (C02-K1/K2/K3): the compact text of a function is what is saved
	envKnown := ""
	for _, b := range binds {
		if !b.fn {
			continue
		}
		if pr := parseText([]byte(b.def), false); pr.clean() {
			if k := c02Known(pr.prog, nil, obs.DumpOpt{}); k != "" {
				envKnown = k
			} else if p1, _ := printNode(pr.prog, true, false); p1 != "" {
				if r1 := parseText([]byte(p1), false); r1.clean() && obs.DumpAST(pr.prog, obs.DumpOpt{}) != obs.DumpAST(r1.prog, obs.DumpOpt{}) &&
					c02Known(pr.prog, r1.prog, obs.DumpOpt{}) == "plus-regroup" {
					envKnown = "plus-regroup"
				}
			}
		}
	}
	known := func(class string) string {
		if envKnown != "" {
			return envKnown
		}
		return class
	}
	a := newSess(sessCfg{})
	for _, d := range defs {
		if r := implEval(a, d, 20000); r.isErr {
			return nil, false // not a case: the environment cannot be built
		}
	}
	b1 := c14Save(a, limit)
	// which bindings are expected in the file
	present := map[string]bool{}
	for _, b := range binds {
		insp := a.step(b.name)
		printed := strings.TrimSuffix(insp.out, "\n")
		if limit > 0 && !b.fnNamed() && len(printed) > limit {
			continue
		}
		present[b.name] = true
	}
	lines := strings.Split(strings.TrimSuffix(b1, "\n"), "\n")
	if b1 == "" {
		lines = nil
	}
	// the pre-seeded globals of a fresh state (Inf, NaN, nil, abs, keys...) are bindings too
	baseLines := strings.Count(c14Save(newSess(sessCfg{}), limit), "\n")
	if len(lines) != len(present)+baseLines {
		return mk("line-count", fmt.Sprintf("%d bindings (+%d pre-seeded) expected in the file, %d lines written: %q", len(present), baseLines, len(lines), b1)), true
	}
	for _, l := range lines {
		if strings.TrimSpace(l) == "" {
			return mk("empty-line", fmt.Sprintf("%q", b1)), true
		}
	}
	if err := os.WriteFile(".gr", []byte(b1), 0o644); err != nil {
		return mk("harness: cannot write", err.Error()), true
	}
	// (a) the real auto-load (one line at a time), (b) load() of the whole file
	loaded := map[string]*sess{}
	bs := newSess(sessCfg{})
	if err := repl.AutoLoad(bs.s, repl.Options{AutoLoad: true}); err != nil {
		return mk(known("autoload-error"), fmt.Sprintf("%v for file %q", firstLine(err.Error()), b1)), true
	}
	loaded["autoload"] = bs
	cs2 := newSess(sessCfg{})
	if r := implEval(cs2, "load()", 100000); r.isErr {
		return mk(known("load-error"), fmt.Sprintf("%s for file %q", firstLine(r.errText), b1)), true
	}
	loaded["load"] = cs2
	for _, how := range []string{"autoload", "load"} {
		x := loaded[how]
		knownSpelling := false
		for _, b := range binds {
			if !present[b.name] {
				if r := implEval(x, b.name, 1000); !r.isErr {
					return mk(how+":skipped-value-present", fmt.Sprintf("%s is over the limit %d but defined after reload (%s)", b.name, limit, r.val)), true
				}
				continue
			}
			if b.fn {
				for _, p := range c14Probes {
					ra := implEval(a, b.name+p, 20000)
					rx := implEval(x, b.name+p, 20000)
					if ra.out != rx.out || ra.isErr != rx.isErr || (!ra.isErr && ra.val != rx.val) {
						class := how + ":" + known("function-behaves-differently")
						return mk(class, fmt.Sprintf("%s%s: original out=%q val=%s err=%v %q; reloaded out=%q val=%s err=%v %q; file %q", b.name, p, ra.out, ra.val, ra.isErr, ra.errText, rx.out, rx.val, rx.isErr, rx.errText, b1)), true
					}
				}
				continue
			}
			ra := implEval(a, b.name, 1000)
			rx := implEval(x, b.name, 1000)
			if rx.isErr || ra.val != rx.val {
				class := how + ":value-differs"
				if b.val != nil && !rx.isErr && rx.val == ref.Dump(c14Degrade(*b.val)) {
					class = how + ":known-number-spelling"
					knownSpelling = true
				}
				return mk(class, fmt.Sprintf("%s: original %s, reloaded %s %q; file %q", b.name, ra.val, rx.val, rx.errText, b1)), true
			}
		}
		if b2 := c14Save(x, limit); b2 != b1 && !knownSpelling {
			return mk(how+":"+known("resave-differs"), fmt.Sprintf("saved %q, saving the reloaded state gives %q", b1, b2)), true
		}
	}
	return nil, true
}

func (b c14Binding) fnNamed() bool { return b.fn && strings.HasPrefix(b.def, "func ") }

func c14Data() []c14Binding {
	var out []c14Binding
	n := 0
	add := func(v ref.Value) {
		n++
		vv := v
		out = append(out, c14Binding{name: fmt.Sprintf("d%d", n), def: fmt.Sprintf("d%d = %s", n, ref.Source(v)), val: &vv})
		// strings are also defined with their raw bytes between the quotes, so that the value in memory does not depend on
		// how the lexer decodes the escapes that the save format will use
		if v.Kind == ref.KString && v.S != "" && !strings.ContainsAny(v.S, "\"\\\n\r\x00") {
			n++
			out = append(out, c14Binding{name: fmt.Sprintf("d%d", n), def: fmt.Sprintf("d%d = \"%s\"", n, v.S), val: &vv})
		}
	}
	for _, i := range []int64{0, 1, -1, math.MaxInt64, math.MinInt64, 1 << 53} {
		add(ref.Int(i))
	}
	for _, f := range []float64{1.0, 1e15, 1e300, float64(1 << 53), 0.1, 5e-324, math.Copysign(0, -1), math.Inf(1), math.Inf(-1), math.NaN(), 1.5, -2.5e-7, 1e21, 123456789.125, -3.0} {
		add(ref.Float(f))
	}
	add(ref.Bool(true))
	add(ref.Bool(false))
	add(ref.Nil)
	for b := 0; b < 256; b++ {
		add(ref.Str(string([]byte{byte(b)})))
	}
	sig := []byte{'"', '\\', '\n', '\t', '$', ' ', 'a', 0x7f, 0x80, 0xff, '`', '\'', 0, 7, '=', 0xc3}
	for _, x := range sig {
		for _, y := range sig {
			add(ref.Str(string([]byte{x, y})))
		}
	}
	add(ref.Str(strings.Repeat("abcde", 1000)))
	add(ref.Str(strings.Repeat("abcde", 14000))) // one line of 70 kB in the saved file
	add(ref.Str(strings.Repeat("xy", 600000)))   // 1.2 MB
	add(ref.Str("\u00e9\u2211 \u00a0"))
	// containers of sizes 0..10, keys of every type, nested
	keyOf := func(i int) ref.Value {
		switch i % 6 {
		case 0:
			return ref.Int(int64(i))
		case 1:
			return ref.Str(fmt.Sprintf("k%d", i))
		case 2:
			return ref.Float(float64(i) + 0.5)
		case 3:
			return ref.Bool(i%4 == 3)
		case 4:
			return ref.Arr(ref.Int(int64(i)))
		}
		return ref.Nil
	}
	for size := 0; size <= 10; size++ {
		var els []ref.Value
		m := ref.NewMap()
		for i := 0; i < size; i++ {
			els = append(els, keyOf(i))
			m = ref.MapSet(m, keyOf(i), keyOf(i+1))
		}
		add(ref.Value{Kind: ref.KArray, A: els})
		add(m)
		add(ref.Arr(ref.Value{Kind: ref.KArray, A: els}, m))
		add(ref.NewMap(ref.Pair{K: ref.Str("in"), V: m}, ref.Pair{K: ref.Value{Kind: ref.KArray, A: els}, V: ref.Int(1)}))
	}
	// large maps whose integer keys are more than 2^63 apart, in several insertion orders (key ordering must not
	// depend on the order of construction: the reloaded literal is built in sorted order)
	ext := []ref.Value{ref.Int(math.MaxInt64), ref.Int(math.MinInt64 + 1), ref.Int(-1), ref.Int(0), ref.Int(1), ref.Int(1 << 62), ref.Int(-(1 << 62))}
	for rot := 0; rot < len(ext); rot++ {
		m := ref.NewMap()
		n++
		def := fmt.Sprintf("d%d = {}", n)
		for i := range ext {
			k := ext[(i+rot)%len(ext)]
			m = ref.MapSet(m, k, ref.Int(int64(i)))
			def += fmt.Sprintf("; d%d[%s] = %d", n, ref.Source(k), i)
		}
		mm := m
		// built by index assignment in this order (the saved literal lists the keys in map order)
		out = append(out, c14Binding{name: fmt.Sprintf("d%d", n), def: def, val: &mm})
		add(m)
	}
	// every 5- and 6-subset of a pool of far-apart and small keys, inserted in the listed and in the reverse order
	// (where a key lands depends on the probes of the binary search: many key sets, not a few)
	pool := []ref.Value{ref.Int(math.MaxInt64), ref.Int(math.MinInt64 + 1), ref.Int(1 << 62), ref.Int(-(1 << 62)), ref.Int(9000000000000000000), ref.Int(-9000000000000000000),
		ref.Int(-3), ref.Int(-1), ref.Int(1), ref.Int(7)}
	for mask := 0; mask < 1<<len(pool); mask++ {
		var sub []ref.Value
		for i := range pool {
			if mask&(1<<i) != 0 {
				sub = append(sub, pool[i])
			}
		}
		if len(sub) != 5 && len(sub) != 6 {
			continue
		}
		for _, rev := range []bool{false, true} {
			m := ref.NewMap()
			n++
			def := fmt.Sprintf("d%d = {}", n)
			for i := range sub {
				k := sub[i]
				if rev {
					k = sub[len(sub)-1-i]
				}
				m = ref.MapSet(m, k, ref.Int(int64(i)))
				def += fmt.Sprintf("; d%d[%s] = %d", n, ref.Source(k), i)
			}
			mm := m
			out = append(out, c14Binding{name: fmt.Sprintf("d%d", n), def: def, val: &mm})
		}
	}
	add(ref.Arr(ref.Float(1.0), ref.Float(2.5)))
	add(ref.NewMap(ref.Pair{K: ref.Float(2.0), V: ref.Str("x")}))
	return out
}

func c14Functions(maxSize int) []c14Binding {
	cfg := gen.FullCfg()
	cfg.Leaves = []string{"a", "b", "1", "1.5", `"s"`, "true"}
	// log() is excluded: by design it shows actual executions only (it is not replayed from the memoization cache)
	cfg.Builtins = []string{"len", "first", "rest", "print", "println", "error", "catch", "del", "quote", "unquote"}
	var out []c14Binding
	n := 0
	params := []string{"", "a", "a, b", "a, .."}
	for size := 1; size <= maxSize; size++ {
		cfg.EnumStmts(size, 2, func(body []*gen.N) bool {
			txt := gen.Render(body, gen.Policy{StmtSep: "; "})
			full := gen.Render(body, gen.Policy{FullParens: true, StmtSep: "; "})
			for vi, t := range []string{txt, full} {
				if vi == 1 && full == txt {
					continue
				}
				p := params[n%len(params)]
				n++
				switch n % 3 {
				case 0:
					out = append(out, c14Binding{name: fmt.Sprintf("f%d", n), def: fmt.Sprintf("func f%d(%s) { %s }", n, p, t), fn: true})
				case 1:
					out = append(out, c14Binding{name: fmt.Sprintf("f%d", n), def: fmt.Sprintf("f%d = func(%s) { %s }", n, p, t), fn: true})
				default:
					out = append(out, c14Binding{name: fmt.Sprintf("f%d", n), def: fmt.Sprintf("f%d = (%s) => { %s }", n, p, t), fn: true})
				}
			}
			return true
		})
	}
	return out
}

func runC14(c *core.Ctx) {
	if dir, err := os.MkdirTemp("", "c14-cwd-"); err == nil {
		_ = os.Chdir(dir)
		defer os.RemoveAll(dir)
	}
	var bounds []string
	do := func(binds []c14Binding, limit int) bool {
		if c.P.Evals&0xff == 0 && c.Expired() {
			return false
		}
		var defs []string
		for _, b := range binds {
			defs = append(defs, b.def)
		}
		key := fmt.Sprint(limit) + "|" + strings.Join(defs, " ;; ")
		if !c.Mine("env", key) {
			return true
		}
		c.Current(core.Case{Kind: "env", Data: key})
		var isCase bool
		v := c.Run(func() *core.Viol {
			vv, ic := c14One(binds, limit)
			isCase = ic
			return vv
		})
		out := "not-a-case"
		if isCase {
			out = "reloads-equal"
		}
		if v != nil {
			out = v.Class
		}
		c.Count("env: "+trunc(key, 160), out, isCase)
		return true
	}
	data := c14Data()
	ok := true
	// every data value alone (unlimited) and under the three length limits
	for _, d := range data {
		for _, lim := range []int{0, 8, 16} {
			if ok = do([]c14Binding{d}, lim); !ok {
				break
			}
		}
	}
	// values whose printed length is exactly limit-1, limit, limit+1
	for _, lim := range []int{8, 16} {
		for delta := -1; delta <= 1; delta++ {
			n := lim + delta
			v1 := ref.Str(strings.Repeat("x", n-2)) // printed with 2 quotes
			v2 := ref.Int(int64(math.Pow10(n - 1)))
			for i, v := range []ref.Value{v1, v2} {
				vv := v
				do([]c14Binding{{name: fmt.Sprintf("e%d", i), def: fmt.Sprintf("e%d = %s", i, ref.Source(v)), val: &vv}, data[1]}, lim)
			}
		}
	}
	bounds = append(bounds, fmt.Sprintf("%d data values (int64 extremes, 15 floats incl. integral/subnormal/-0/Inf/NaN, every single-byte string, 256 two-byte strings, a 5000-byte string, arrays and maps of sizes 0..10 with keys of every type nested to depth 2) each alone under MaxValueLen 0, 8, 16; values of printed length limit-1, limit, limit+1", len(data)))
	// pairs and triples of a representative subset (name ordering, mixed kinds)
	if ok {
		rep := []c14Binding{data[1], data[6], data[10], data[21], data[58], data[len(data)-8], data[len(data)-3]}
		rep = append(rep, c14Binding{name: "alias", def: "alias = named", fn: true}, c14Binding{name: "alias2", def: "alias2 = lam", fn: true})
		rep = append(rep, c14Binding{name: "UP", def: "UP = 3", val: func() *ref.Value { v := ref.Int(3); return &v }()},
			c14Binding{name: "named", def: "func named(x) { x + 1 }", fn: true}, c14Binding{name: "lam", def: "lam = x => x * 2", fn: true})
		for i := range rep {
			for j := range rep {
				if i == j {
					continue
				}
				do([]c14Binding{rep[i], rep[j]}, 0)
				for k := range rep {
					if k != i && k != j && i < j {
						do([]c14Binding{rep[i], rep[j], rep[k]}, 0)
					}
				}
			}
		}
		bounds = append(bounds, "all ordered pairs and triples of 10 representative bindings (data, constant name, named function, lambda)")
	}
	// the save() / load() extensions themselves: a larger state saved, then a smaller one saved under the same name
	if ok {
		n := 0
		for _, name := range []string{"", "st"} {
			for _, big := range []int{1, 5, 40} {
				for _, small := range []int{0, 1, 4} {
					n++
					key := fmt.Sprintf("resave|%q|%d|%d", name, big, small)
					if !c.Mine("env", key) {
						continue
					}
					cs := core.Case{Kind: "resave", Data: key}
					c.Current(cs)
					v := c.Run(func() *core.Viol {
						arg := ""
						if name != "" {
							arg = ref.SourceString(name)
						}
						a := newSess(sessCfg{})
						for i := 0; i < big; i++ {
							implEval(a, fmt.Sprintf("rs%d = %q", i, strings.Repeat("v", 20+i)), 1000)
						}
						if r := implEval(a, "save("+arg+")", 100000); r.isErr {
							return &core.Viol{Class: "resave:save-error", Detail: r.errText, Case: cs}
						}
						for i := small; i < big; i++ {
							implEval(a, fmt.Sprintf("del(rs%d)", i), 1000)
						}
						if r := implEval(a, "save("+arg+")", 100000); r.isErr {
							return &core.Viol{Class: "resave:save-error", Detail: r.errText, Case: cs}
						}
						b := newSess(sessCfg{})
						if r := implEval(b, "load("+arg+")", 100000); r.isErr {
							return &core.Viol{Class: "resave:load-error", Detail: fmt.Sprintf("after saving %d then %d bindings under the same name: %s", big, small, r.errText), Case: cs}
						}
						if ga, gb := globalsDump(a.s), globalsDump(b.s); ga != gb {
							return &core.Viol{Class: "resave:state-differs", Detail: fmt.Sprintf("saved %d then %d bindings: loaded state %s, expected %s", big, small, trunc(gb, 300), trunc(ga, 300)), Case: cs}
						}
						return nil
					})
					out := "reloads-equal"
					if v != nil {
						out = v.Class
					}
					c.Count("env: "+key, out, true)
				}
			}
		}
		bounds = append(bounds, "save(name) of 1/5/40 bindings, then of 0/1/4 of them under the same name, then load(name) in a fresh session")
	}
	// histories of sessions, each one auto-loading what the previous one auto-saved, doing one or two updates and
	// auto-saving (the real repl.AutoLoad / repl.AutoSave, which only saves when it sees the state as changed):
	// the last reload must be the state of one uninterrupted session that did all the updates
	if ok {
		c14Unrestricted(c, &bounds)
		n := c14Sessions(c)
		bounds = append(bounds, fmt.Sprintf("%d session histories: a defining session, then every sequence of 1..%d sessions each doing one of %d updates (direct and through functions: read-modify-write of a global, map key, array element, ++, del, new global, redefinition, nothing) between repl.AutoLoad and repl.AutoSave, compared with one uninterrupted session; each also at debug log level", n, map[bool]int{true: 2, false: 3}[c.Quick()], len(c14SessionOps)))
	}
	// functions whose bodies are every G-syn statement list up to a size
	if ok {
		size := 3
		if !c.Quick() {
			size = 4
		}
		fns := c14Functions(size)
		for _, f := range fns {
			if ok = do([]c14Binding{f}, 0); !ok {
				break
			}
		}
		bounds = append(bounds, fmt.Sprintf("%d functions (named, func literal, lambda; 0-2 parameters and variadic) whose bodies are every G-syn statement list of size <=%d in minimal and fully parenthesised spelling, compared on a 6-call probe set", len(fns), size))
	}
	c.P.Bound = strings.Join(bounds, "; ") + "; reloaded both by repl.AutoLoad (line at a time) and by load() (whole file)"
}

const c14SessionInit = `cnt = 1; m = {"k": 1, 2: [3]}; arr = [1, [2]]; x = 0; s = "a"; func inc() { cnt = cnt + 1 }; func setm() { m.k = m.k + 1 }; func seta() { arr[0] = arr[0] + 1 }; func incx() { x++ }; func grow() { s = s + s }; func wr() { cnt = 50 }; func delk() { del(m.k) }; func viaarg(v) { cnt = cnt + v }; func nested() { inc(); inc() }`

var c14SessionOps = []string{
	"cnt = cnt + 1", "inc()", "setm()", "seta()", "incx()", "grow()", "wr()", "delk()", "viaarg(10)", "nested()",
	"m.k = 7", "arr[1] = 9", "x++", "del(x)", "y = [cnt]", "cnt", "m[2][0] = 4", "func inc() { cnt = cnt + 100 }", "inc(); cnt = cnt - 1",
	"s = s + \"" + strings.Repeat("z", 200) + "\"", "grow(); grow(); grow(); grow(); grow(); grow(); grow(); grow()",
}

// c14Sessions enumerates the session histories; returns how many were run by this worker or others.
func c14Sessions(c *core.Ctx) int {
	maxLen := 3
	if c.Quick() {
		maxLen = 2
	}
	total := 0
	var rec func(h []int)
	rec = func(h []int) {
		if len(h) > 0 {
			for _, debugLevel := range []bool{false, true} {
				total++
				key := fmt.Sprintf("sessions|%v|debug=%v", h, debugLevel)
				if !c.Mine("env", key) {
					continue
				}
				var ops []string
				for _, i := range h {
					ops = append(ops, c14SessionOps[i])
				}
				cs := core.Case{Kind: "sessions", Cfg: fmt.Sprint(debugLevel), Data: strings.Join(ops, " ;; ")}
				c.Current(cs)
				v := c.Run(func() *core.Viol { return c14SessionHistory(ops, debugLevel, cs) })
				out := "reloads-equal"
				if v != nil {
					out = v.Class
				}
				c.Count("env: "+trunc(key+" "+cs.Data, 160), out, true)
			}
		}
		if len(h) == maxLen || c.Expired() {
			return
		}
		for i := range c14SessionOps {
			rec(append(append([]int{}, h...), i))
		}
	}
	rec(nil)
	return total
}

func c14SessionHistory(ops []string, debugLevel bool, cs core.Case) *core.Viol {
	return c14SessionHistoryDirs(ops, debugLevel, cs, nil)
}

// c14SessionHistoryDirs: the sessions run in a scratch directory holding the given sub-directories; the uninterrupted
// session runs in another scratch directory of the same shape (explicit saves write files in both).
func c14SessionHistoryDirs(ops []string, debugLevel bool, cs core.Case, subdirs []string) *core.Viol {
	dir, err := os.MkdirTemp("", "c14-sess-")
	if err != nil {
		return nil
	}
	defer os.RemoveAll(dir)
	old, _ := os.Getwd()
	for _, sd := range subdirs {
		_ = os.MkdirAll(filepath.Join(dir, "one", sd), 0o755)
		_ = os.MkdirAll(filepath.Join(dir, "many", sd), 0o755)
	}
	_ = os.MkdirAll(filepath.Join(dir, "one"), 0o755)
	_ = os.MkdirAll(filepath.Join(dir, "many"), 0o755)
	_ = os.Chdir(filepath.Join(dir, "one"))
	defer func() { _ = os.Chdir(old) }()
	if debugLevel {
		// the log level is configuration like any other: what is saved must not depend on it
		prev := log.GetLogLevel()
		log.SetLogLevelQuiet(log.Debug)
		defer log.SetLogLevelQuiet(prev)
	}
	opts := repl.Options{AutoLoad: true, AutoSave: true}
	// the uninterrupted session
	one := newSess(sessCfg{})
	implEval(one, c14SessionInit, 100000)
	for _, op := range ops {
		implEval(one, op, 100000)
	}
	want := globalsDump(one.s)
	_ = os.Chdir(filepath.Join(dir, "many"))
	// the same in separate sessions
	run := func(src string) *core.Viol {
		x := newSess(sessCfg{})
		if err := repl.AutoLoad(x.s, opts); err != nil {
			return &core.Viol{Class: "sessions:autoload-error", Detail: fmt.Sprintf("before %q: %v", trunc(src, 80), err), Case: cs}
		}
		if src != "" {
			implEval(x, src, 100000)
		}
		if err := repl.AutoSave(x.s, opts); err != nil {
			return &core.Viol{Class: "sessions:autosave-error", Detail: fmt.Sprintf("after %q: %v", trunc(src, 80), err), Case: cs}
		}
		return nil
	}
	if v := run(c14SessionInit); v != nil {
		return v
	}
	for _, op := range ops {
		if v := run(op); v != nil {
			return v
		}
	}
	last := newSess(sessCfg{})
	if err := repl.AutoLoad(last.s, opts); err != nil {
		return &core.Viol{Class: "sessions:autoload-error", Detail: fmt.Sprintf("final reload: %v", err), Case: cs}
	}
	if got := globalsDump(last.s); got != want {
		return &core.Viol{Class: "sessions:state-lost", Detail: fmt.Sprintf("after sessions doing %q (debug log level %v) the reloaded state is\n%s\nan uninterrupted session ends with\n%s", ops, debugLevel, trunc(got, 600), trunc(want, 600)), Case: cs}
	}
	return nil
}

// ---- sessions with unrestricted IO (the command line's default): explicit saves to other files and directories between
// the updates. Run in a child process (the IO configuration is per process).

var c14UnrestrictedOps = []string{"save(\"bk/.gr\")", "save(\"./.gr\")", "save(\"other.gr\")", "save()", "load(\"bk/.gr\")", "cnt = cnt + 1", "inc()", "m.k = 7", "cnt",
	// an update and an explicit save in one session (the end-of-session save still has to happen)
	"cnt = cnt + 1; save(\"bk/.gr\")", "inc(); save(\"./.gr\")", "m.k = 8; save(\"other.gr\")", "save(\"bk/.gr\"); cnt = cnt + 5", "x = x + 1; save(\"bk/.gr\"); load(\"bk/.gr\")"}

func c14Child(args []string) int {
	n := 0
	var rec func(h []int)
	rec = func(h []int) {
		if len(h) > 0 {
			n++
			var ops []string
			for _, i := range h {
				ops = append(ops, c14UnrestrictedOps[i])
			}
			if v := c14SessionHistoryDirs(ops, false, core.Case{Kind: "sessions-unrestricted", Data: strings.Join(ops, " ;; ")}, []string{"bk"}); v != nil {
				fmt.Printf("C14CHILD-VIOL %s | %s | %s\n", strings.Join(ops, " ;; "), v.Class, strings.ReplaceAll(trunc(v.Detail, 1200), "\n", "\\n"))
			}
		}
		if len(h) == 3 {
			return
		}
		for i := range c14UnrestrictedOps {
			rec(append(append([]int{}, h...), i))
		}
	}
	rec(nil)
	fmt.Printf("C14CHILD-END %d\n", n)
	return 0
}

func c14Unrestricted(c *core.Ctx, bounds *[]string) {
	if !c.MineNoDedup("child", "sessions-unrestricted") {
		return
	}
	self, _ := os.Executable()
	cmd := exec.Command(self, "C14-child")
	cmd.Env = append(os.Environ(), "VERIF_IOCFG=unrestricted", "GOMAXPROCS=2")
	out, err := cmd.CombinedOutput()
	text := string(out)
	cs := core.Case{Kind: "sessions-unrestricted", Data: "all"}
	if err != nil || !strings.Contains(text, "C14CHILD-END") {
		c.Report(&core.Viol{Class: "sessions-unrestricted:child-died", Detail: fmt.Sprintf("%v %s", err, trunc(text, 800)), Case: cs})
		return
	}
	total := 0
	for _, l := range strings.Split(text, "\n") {
		switch {
		case strings.HasPrefix(l, "C14CHILD-END "):
			fmt.Sscanf(l, "C14CHILD-END %d", &total)
		case strings.HasPrefix(l, "C14CHILD-VIOL "):
			f := strings.SplitN(l[14:], " | ", 3)
			if len(f) == 3 {
				c.Report(&core.Viol{Class: f[1], Detail: "(unrestricted IO) " + f[2], Case: core.Case{Kind: "sessions-unrestricted", Data: f[0]}})
			}
		}
	}
	for i := 0; i < total; i++ {
		c.CountNT(fmt.Sprintf("sessions-unrestricted %d", i), "reloads-equal", true)
	}
	*bounds = append(*bounds, fmt.Sprintf("with unrestricted IO (child process): every sequence of <=3 sessions over %d actions (explicit saves to another directory's .gr, to ./.gr, to another file, load of the backup, updates) = %d histories, compared with one uninterrupted session", len(c14UnrestrictedOps), total))
}

func init() {
	core.RegisterChild("C14-child", c14Child)
	core.Register(&core.Check{
		ID:          "C14",
		Level:       "exploration",
		Rule:        "global environments enumerated exhaustively over a value/function universe; each is built through the evaluator, saved with State.SaveGlobals, written to ./.gr in a scratch directory and reloaded into fresh states by the real repl.AutoLoad (one line at a time) and by load() (whole file). Oracle: every saved data global has an equal type-tagged dump after reload; every function global gives identical output/value/error on a 6-call probe set; the number of lines equals the number of bindings written, no empty line; saving the reloaded state yields byte-identical text; values over MaxValueLen are absent (not truncated) and the rest complete. An environment that cannot be built (definition fails) is not a case. Non-trivial = cases; distinct by definitions + limit. Session histories: a defining session then every sequence of <=2 (thorough 3) sessions each doing one of 21 updates (direct, through functions, index/dot assignment, ++, del, redefinition) between the real repl.AutoLoad and repl.AutoSave, at default and debug log level: the final reload equals the state of one uninterrupted session. Round 7: in a child process with unrestricted IO, every sequence of <=3 sessions over 14 actions including explicit saves to another directory's .gr, to ./.gr and to another file, alone and right after an update in the same session.",
		Assume:      []string{"functions are compared on a probe set of 6 argument lists, not on every argument"},
		QuickCap:    100 * time.Second,
		ThoroughCap: 20 * time.Minute,
		HangLimit:   240 * time.Second,
		Run:         runC14,
		Replay: func(c *core.Ctx, cs core.Case) *core.Viol {
			if dir, err := os.MkdirTemp("", "c14-cwd-"); err == nil {
				_ = os.Chdir(dir)
				defer os.RemoveAll(dir)
			}
			if cs.Kind == "sessions" {
				return c14SessionHistory(strings.Split(cs.Data, " ;; "), cs.Cfg == "true", cs)
			}
			var limit int
			fmt.Sscan(cs.Cfg, &limit)
			var binds []c14Binding
			for _, d := range strings.Split(cs.Data, " ;; ") {
				b := c14Binding{def: d}
				switch {
				case strings.HasPrefix(d, "func "):
					b.name = d[5:strings.IndexByte(d, '(')]
					b.fn = true
				default:
					b.name = strings.TrimSpace(d[:strings.IndexByte(d, '=')])
					rest := strings.TrimSpace(d[strings.IndexByte(d, '=')+1:])
					b.fn = strings.HasPrefix(rest, "func") || strings.Contains(rest, "=>")
				}
				binds = append(binds, b)
			}
			v, _ := c14One(binds, limit)
			return v
		},
	})
}
