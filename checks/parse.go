package checks

import (
	"fmt"
	"runtime/debug"
	"strings"

	"grol.io/grol/ast"
	"grol.io/grol/lexer"
	"grol.io/grol/parser"
)

// parseRes is what the front end reported for one text.
type parseRes struct {
	prog  *ast.Statements
	errs  []string
	cont  bool
	panic string // panic value + first grol frame, "" if none
}

func (r *parseRes) clean() bool {
	return r.panic == "" && len(r.errs) == 0 && !r.cont && r.prog != nil
}

// panicSite extracts the first stack frame inside grol.io/grol from a stack trace.
func panicSite(stack []byte) string {
	lines := strings.Split(string(stack), "\n")
	for _, l := range lines {
		if strings.HasPrefix(l, "grol.io/grol/") {
			if i := strings.LastIndexByte(l, '('); i > 0 {
				l = l[:i]
			}
			return strings.TrimPrefix(l, "grol.io/grol/")
		}
	}
	return "?"
}

func panicClass(r any, stack []byte) string {
	msg := fmt.Sprint(r)
	if len(msg) > 60 {
		msg = msg[:60]
	}
	// abstract digits so that one defect is one class
	var sb strings.Builder
	prevDigit := false
	for _, ch := range msg {
		if ch >= '0' && ch <= '9' {
			if !prevDigit {
				sb.WriteByte('N')
			}
			prevDigit = true
			continue
		}
		prevDigit = false
		sb.WriteRune(ch)
	}
	return "panic@" + panicSite(stack) + ": " + sb.String()
}

func parseText(src []byte, lineMode bool) (res parseRes) {
	defer func() {
		if r := recover(); r != nil {
			res.panic = panicClass(r, debug.Stack())
		}
	}()
	var l *lexer.Lexer
	if lineMode {
		l = lexer.NewLineMode(string(src))
	} else {
		l = lexer.NewBytes(src)
	}
	p := parser.New(l)
	res.prog = p.ParseProgram()
	res.errs = p.Errors()
	res.cont = p.ContinuationNeeded()
	return res
}

// printModes: normal, compact, all-parens (compact).
func printNode(n ast.Node, compact, allParens bool) (out string, pan string) {
	defer func() { observe("print", out, pan) }()
	defer func() {
		if r := recover(); r != nil {
			pan = panicClass(r, debug.Stack())
		}
	}()
	ps := ast.NewPrintState()
	ps.Compact = compact
	ps.AllParens = allParens
	n.PrettyPrint(ps)
	return ps.String(), ""
}
