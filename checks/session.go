package checks

import (
	"context"
	"fmt"
	"regexp"
	"strings"

	"grol.io/grol/eval"
	"grol.io/grol/object"
	"grol.io/grol/repl"
)

// A session is one persistent interpreter state driven through repl.EvalOne, like the REPL does.

type sessCfg struct {
	noReg    bool
	cacheOff bool
	maxDepth int
	lineMode bool
}

type sess struct {
	s    *eval.State
	eout strings.Builder // what EvalOne writes to its own writer argument (the shown result), kept apart from State.Out
	out  strings.Builder
	opts repl.Options
	cfg  sessCfg
	// noContext: implEval leaves State.Context nil (library use of State.Eval)
	noContext bool
}

// stepRec is the observation record of one input.
type stepRec struct {
	out      string // everything written to State.Out and to the EvalOne writer (print output + shown result)
	errs     []string
	panicked bool
	cont     bool
	split    string // how many bytes went to State.Out and how many to EvalOne's writer
}

func (r stepRec) String() string {
	return fmt.Sprintf("out=%q errs=%q panicked=%v cont=%v", r.out, r.errs, r.panicked, r.cont)
}

func newSess(cfg sessCfg) *sess {
	x := &sess{cfg: cfg}
	verifCounter = 0
	x.s = eval.NewState()
	x.s.NoReg = cfg.noReg
	if cfg.maxDepth > 0 {
		x.s.MaxDepth = cfg.maxDepth
	}
	x.s.Out = &x.out
	x.s.LogOut = &x.out
	x.s.NoLog = true
	x.opts = repl.Options{All: !cfg.lineMode, ShowEval: true, NoColor: true, NoReg: cfg.noReg}
	return x
}

// step feeds one input through repl.EvalOne with the session's configuration.
func (x *sess) step(input string) stepRec {
	eval.VerifCacheOff = x.cfg.cacheOff
	defer func() { eval.VerifCacheOff = false }()
	x.out.Reset()
	x.eout.Reset()
	cont, panicked, errs, _ := repl.EvalOne(context.Background(), x.s, input, &x.eout, x.opts)
	all := x.out.String() + x.eout.String()
	observe("step", all, strings.Join(errs, "\x00"))
	return stepRec{out: all, errs: errs, panicked: panicked, cont: cont, split: fmt.Sprintf("%d+%d", x.out.Len(), x.eout.Len())}
}

// stepCtx is step with a caller-provided context (C09/C10).
func (x *sess) stepCtx(ctx context.Context, input string) stepRec {
	eval.VerifCacheOff = x.cfg.cacheOff
	defer func() { eval.VerifCacheOff = false }()
	x.out.Reset()
	x.eout.Reset()
	cont, panicked, errs, _ := repl.EvalOne(ctx, x.s, input, &x.eout, x.opts)
	all := x.out.String() + x.eout.String()
	observe("step", all, strings.Join(errs, "\x00"))
	return stepRec{out: all, errs: errs, panicked: panicked, cont: cont, split: fmt.Sprintf("%d+%d", x.out.Len(), x.eout.Len())}
}

// runProgram evaluates one program on a fresh state.
func runProgram(cfg sessCfg, src string) stepRec {
	return newSess(cfg).step(src)
}

var (
	reDigits = regexp.MustCompile(`-?[0-9]+(\.[0-9]+)?`)
	reQuoted = regexp.MustCompile(`"[^"]*"`)
	reStack  = regexp.MustCompile(`(?s)( in |, stack below:>).*$`)
)

// errTemplate abstracts an error message to its template (digits, quoted text and the stack dropped).
func errTemplate(e string) string {
	e = reStack.ReplaceAllString(e, "")
	e = reQuoted.ReplaceAllString(e, `"…"`)
	e = reDigits.ReplaceAllString(e, "N")
	if len(e) > 90 {
		e = e[:90]
	}
	return e
}

// outcomeClass is the outcome class of one record: ok / err:<template> / panic:<template>.
func outcomeClass(r stepRec) string {
	switch {
	case r.panicked:
		return "panic:" + errTemplate(strings.Join(r.errs, ";"))
	case len(r.errs) > 0:
		return "err:" + errTemplate(r.errs[0])
	case r.cont:
		return "incomplete"
	}
	return "ok"
}

// sameRec compares two records; errors are compared by text (the differential properties say "identical")
// after dropping the stack trace lines, which legitimately name registers / cache details.
func sameRec(a, b stepRec) bool {
	if a.out != b.out || a.split != b.split || a.panicked != b.panicked || a.cont != b.cont || len(a.errs) != len(b.errs) {
		return false
	}
	for i := range a.errs {
		if normFree(a.errs[i]) != normFree(b.errs[i]) {
			return false
		}
	}
	return true
}

var reFreeBytes = regexp.MustCompile(`, \d+ free`)

// normFree removes the one run-dependent number of an error text: the free memory reported by the memory guard.
func normFree(e string) string {
	if strings.Contains(e, "would exceed memory") {
		return reFreeBytes.ReplaceAllString(e, ", N free")
	}
	return e
}

// globalsDump dumps all globals of a state through SaveGlobals (sorted, one per line).
func globalsDump(s *eval.State) string {
	var sb strings.Builder
	old := s.MaxValueLen
	s.MaxValueLen = 0
	_, _ = s.SaveGlobals(&sb)
	s.MaxValueLen = old
	return sb.String()
}

var _ = object.NULL
