package checks

import (
	"bytes"
	"context"
	"fmt"
	"io"
	"os"
	"os/exec"
	"path/filepath"
	"regexp"
	"runtime"
	"runtime/debug"
	"strconv"
	"strings"
	"sync"
	"syscall"
	"time"

	"grol.io/grol/object"
	"grol.io/grol/repl"
	"verif/internal/core"
)

// C09 — execution is bounded: depth, time and memory guards always hold.

var c09CancelPrograms = []string{
	"for true { }",
	"s = 0; for i = 1000000 { s = s + i }",
	"for i = 1000 { for j = 1000 { } }",
	"func r(n) { r(n + 1) }; r(0)",
	"func a(n) { b(n + 1) }; func b(n) { a(n + 1) }; a(0)",
	"mk = func() { func(n) { self(n + 1) } }; mk()(0)",
	"l = 0:500; for true { for e = l { e } }",
	"m = {1: 1, 2: 2, 3: 3, 4: 4, 5: 5, 6: 6}; for true { for kv = m { kv.value } }",
	`for true { for ch = "abcdefgh" { ch } }`,
	"a = []; for true { a = a + [len(a)] }",
	`for true { sprintf("%d", rand(10)); max(1, 2, 3); len("abc") }`,
	`for true { eval("1 + 2 * 3") }`,
	// the work happens inside the builtins that turn an error into a value
	"func busy(n) { s = 0; for i = 20 { s = s + i }; s }; k = 0; for true { k = k + 1; catch(busy(k)) }",
	"func busy(n) { s = 0; for i = 20 { s = s + i }; s }; for true { log(busy(3)) }",
	"func r(n) { catch(r(n + 1)); log(r(n + 2)) }; r(0)",
	"for true { c = catch(catch(log(catch([1, 2, 3][0:2])))) }",
	// thorough
	"fib = func(n) { if n < 2 { n } else { fib(n - 1) + fib(n - 2) } }; for true { fib(12) }",
	"for true { [1, 2, 3, [4, 5, {6: 7}]] }",
	"m = {}; for i = 100000 { m[i] = i }",
	`s = ""; for i = 100000 { s = s + "x" }`,
	"for true { keys({1: 1, 2: 2, 3: 3}) }",
	"x = 0; for x < 1000000 { x++ }",
	"for true { if true { if false { 1 } else { 2 } } }",
	"f = x => x + 1; for true { f(f(f(1))) }",
}

func c09CountNodes(src string) int {
	// upper bound for the number of evaluations that can still be pending: the number of tokens of the program
	n := len(c15Lex(src)) + 8
	if strings.Contains(src, "catch(") || strings.Contains(src, "log(") {
		// catch() and log() look at the context once more when their argument comes back as an error: one poll per
		// call still in flight, i.e. per level of the recursion being unwound (the session's depth limit is 500)
		n += 2 * 500
	}
	return n
}

func c09CancelAt(src string, k int, noReg bool) (polls int, rec implRes, after string) {
	x := newSess(sessCfg{noReg: noReg, maxDepth: 500})
	x.out.Reset()
	cc := &countCtx{Context: context.Background(), limit: k}
	x.s.Context = cc
	savedOut := x.s.Out
	rec = func() (res implRes) {
		defer func() {
			if r := recover(); r != nil {
				res.panicked = panicClass(r, debug.Stack())
				res.isErr = true
				res.errText = fmt.Sprint(r)
				x.s.Reset()
				x.s.Out = savedOut
			}
		}()
		pr := parseText([]byte(src), false)
		o := object.Value(x.s.Eval(pr.prog))
		if o.Type() == object.ERROR {
			res.isErr = true
			res.errText = o.Inspect()
		}
		return res
	}()
	polls = cc.n
	// the session must be usable afterwards (fresh context, as EvalOne installs per input)
	x.s.Context = nil
	r2 := x.step("println(40 + 2)")
	after = r2.out
	return polls, rec, after
}

func c09Cancellation(c *core.Ctx, bounds *[]string) {
	progs := c09CancelPrograms[:16]
	H := 400
	if !c.Quick() {
		progs = c09CancelPrograms
		H = 3000
	}
	for pi, src := range progs {
		// number of polls of a run bounded at H
		n, _, _ := c09CancelAt(src, H, false)
		slack := c09CountNodes(src)
		for k := 0; k <= min(n, H); k++ {
			for _, noReg := range []bool{false, true} {
				key := fmt.Sprintf("cancel|%d|%d|%v", pi, k, noReg)
				if !c.MineNoDedup("cancel", key) {
					continue
				}
				if c.Expired() {
					return
				}
				cs := core.Case{Kind: "cancel", Cfg: fmt.Sprintf("k=%d noReg=%v", k, noReg), Data: src}
				c.Current(cs)
				v := c.Run(func() *core.Viol {
					polls, rec, after := c09CancelAt(src, k, noReg)
					switch {
					case rec.panicked != "" && !strings.Contains(rec.errText, "max depth"):
						return &core.Viol{Class: "cancel:" + rec.panicked, Detail: rec.errText, Case: cs}
					case !rec.isErr && polls > k:
						return &core.Viol{Class: "cancel:no-error-after-cancellation", Detail: fmt.Sprintf("cancelled at poll %d, evaluation returned a value after %d polls", k, polls), Case: cs}
					case polls-k > slack:
						return &core.Viol{Class: "cancel:keeps-evaluating", Detail: fmt.Sprintf("cancelled at poll %d but %d more polls were made (program has %d tokens)", k, polls-k, slack), Case: cs}
					case strings.TrimSpace(after) != "42":
						return &core.Viol{Class: "cancel:session-unusable-afterwards", Detail: fmt.Sprintf("next input printed %q", after), Case: cs}
					}
					return nil
				})
				out := "returns-error-promptly"
				if v != nil {
					out = v.Class
				}
				c.CountNT(key+" "+trunc(src, 60), out, true)
			}
		}
	}
	*bounds = append(*bounds, fmt.Sprintf("cancellation: %d programs (non-terminating loops, counted/nested loops, direct/mutual/closure recursion, list/map/string iteration, container building, extensions and eval() in loops) x every cancellation instant k in 0..min(polls,%d) of a counting context x registers on/off", len(progs), H))
}

var c09DepthShapes = []struct {
	name string
	gen  func(n int) string
}{
	{"named-recursion", func(n int) string {
		return fmt.Sprintf("func r(n) { if n == 0 { 0 } else { 1 + r(n - 1) } }; r(%d)", n)
	}},
	{"self", func(n int) string { return fmt.Sprintf("(n => if n == 0 { 0 } else { 1 + self(n - 1) })(%d)", n) }},
	{"mutual", func(n int) string {
		return fmt.Sprintf("func ev(n) { if n == 0 { true } else { od(n - 1) } }; func od(n) { if n == 0 { false } else { ev(n - 1) } }; ev(%d)", n)
	}},
	{"closure-chain", func(n int) string {
		return fmt.Sprintf("mk = func(k) { if k == 0 { () => 0 } else { inner = mk(k - 1); () => 1 + inner() } }; mk(%d)()", n)
	}},
	{"nested-calls", func(n int) string { return "f = x => x + 1; " + strings.Repeat("f(", n) + "0" + strings.Repeat(")", n) }},
	{"nested-array", func(n int) string { return strings.Repeat("[", n) + "1" + strings.Repeat("]", n) }},
	{"prefix-chain", func(n int) string { return strings.Repeat("-(", n) + "1" + strings.Repeat(")", n) }},
	{"nested-blocks", func(n int) string { return strings.Repeat("if true { ", n) + "1" + strings.Repeat(" }", n) }},
}

func c09Depth(c *core.Ctx, bounds *[]string) {
	var limits []int
	for m := 10; m <= 64; m += 3 {
		limits = append(limits, m)
	}
	limits = append(limits, 100, 1000)
	if !c.Quick() {
		limits = nil
		for m := 10; m <= 64; m++ {
			limits = append(limits, m)
		}
		limits = append(limits, 100, 1000, 10000)
	}
	for si, sh := range c09DepthShapes {
		for _, m := range limits {
			for _, noReg := range []bool{false, true} {
				key := fmt.Sprintf("depth|%s|%d|%v", sh.name, m, noReg)
				if !c.MineNoDedup("depth", key) {
					continue
				}
				if c.Expired() {
					return
				}
				cs := core.Case{Kind: "depth", Cfg: fmt.Sprintf("MaxDepth=%d noReg=%v", m, noReg), Data: sh.name}
				c.Current(cs)
				v := c.Run(func() *core.Viol {
					upper := m + 25
					// one fresh session per nesting count (results of earlier inputs would otherwise be served from the
					// memoization cache and the recursion never get deep)
					overflows := func(n int) (bool, *core.Viol) {
						x := newSess(sessCfg{noReg: noReg, maxDepth: m})
						r := x.step(sh.gen(n))
						overflow := r.panicked && strings.Contains(strings.Join(r.errs, ";"), "max depth")
						if r.panicked && !overflow {
							return false, &core.Viol{Class: "depth:other-panic", Detail: fmt.Sprintf("n=%d: %v", n, r.errs), Case: cs}
						}
						if !r.panicked && len(r.errs) > 0 && si >= 4 && strings.Contains(r.errs[0], "too deep (max") {
							overflow = true // refused by the parser's own nesting bound
						} else if !r.panicked && len(r.errs) > 0 {
							return false, &core.Viol{Class: "depth:unexpected-error", Detail: fmt.Sprintf("n=%d: %v", n, r.errs), Case: cs}
						}
						// the next input evaluates normally (depth and scope start from the top level again)
						if nx := x.step("println(40 + 2)"); strings.TrimSpace(nx.out) != "42" || len(nx.errs) > 0 {
							return false, &core.Viol{Class: "depth:session-unusable-after-overflow", Detail: fmt.Sprintf("after n=%d: %s", n, nx), Case: cs}
						}
						return overflow, nil
					}
					var ns []int
					if m <= 64 {
						for n := 1; n <= upper; n++ {
							ns = append(ns, n)
						}
					} else {
						// locate the threshold by bisection, then every count in a window around it plus the ends
						lo, hi := 1, upper
						for lo < hi {
							mid := (lo + hi) / 2
							o, v := overflows(mid)
							if v != nil {
								return v
							}
							if o {
								hi = mid
							} else {
								lo = mid + 1
							}
						}
						for n := 1; n <= 30; n++ {
							ns = append(ns, n)
						}
						for n := max(31, lo-20); n <= min(upper, lo+20); n++ {
							ns = append(ns, n)
						}
						if lo+20 < upper {
							ns = append(ns, upper)
						}
					}
					failedAt := -1
					for _, n := range ns {
						overflow, v := overflows(n)
						if v != nil {
							return v
						}
						if overflow && failedAt < 0 {
							failedAt = n
						}
						if !overflow && failedAt >= 0 {
							return &core.Viol{Class: "depth:not-monotone", Detail: fmt.Sprintf("recursion %d overflowed MaxDepth=%d but %d did not", failedAt, m, n), Case: cs}
						}
					}
					// textual nesting is not recursion: arguments and literal elements are evaluated without counting
					// towards MaxDepth (their Go recursion is bounded by the parser's nesting limit, see the deep family)
					recursion := si < 4
					if failedAt < 0 && recursion {
						return &core.Viol{Class: "depth:limit-not-enforced", Detail: fmt.Sprintf("no 'max depth' failure up to nesting %d with MaxDepth=%d", upper, m), Case: cs}
					}
					return nil
				})
				out := "monotone-threshold"
				if v != nil {
					out = v.Class
				}
				c.CountNT(key, out, true)
			}
		}
	}
	*bounds = append(*bounds, fmt.Sprintf("depth: %d MaxDepth values (10..64, 100, 1000%s) x 8 recursion/nesting shapes x every nesting count 1..MaxDepth+25 (for MaxDepth>64: 1..30, the bisected threshold +-20, and MaxDepth+25), each on a fresh session, x registers on/off through repl.EvalOne, each followed by a probe input", len(limits), map[bool]string{true: "", false: ", 10000"}[c.Quick()]))
}

// ---- child process part: default depth limit, deeply nested source, memory growth ----

type c09ChildProg struct {
	name     string
	gen      func() string
	maxDepth int    // 0 = default
	expect   string // when set: the outcome class must contain this text (the limit must be the one that stops it)
	cancelAt int    // when set: no deadline; the context reports cancellation from its cancelAt-th poll on (a deterministic depth)
}

func c09P(name, src string) c09ChildProg {
	return c09ChildProg{name: name, gen: func() string { return src }}
}

// c09U is a recursion cancelled on the way down (at a fixed number of context polls, before the depth and nesting
// limits): what is left is the unwinding, whose cost per level must not grow with the depth.
func c09U(name, src string) c09ChildProg {
	return c09ChildProg{name: "unwind-" + name, gen: func() string { return src }, maxDepth: 1 << 30, cancelAt: 250000}
}

type c09CancelCtx struct {
	context.Context
	n, limit int
	at       time.Duration // CPU time of the process when cancellation was first reported
}

func (c *c09CancelCtx) Err() error {
	c.n++
	if c.n > c.limit {
		if c.at == 0 {
			c.at = c09CPU()
		}
		return context.Canceled
	}
	return nil
}

func c09ChildPrograms(kind string, quick bool) []c09ChildProg {
	var out []c09ChildProg
	switch kind {
	case "deep":
		sizes := []int{10000, 100000, 1000000}
		if !quick {
			sizes = append(sizes, 5000000)
		}
		for _, n := range sizes {
			out = append(out,
				c09ChildProg{name: fmt.Sprintf("parens-%d", n), gen: func() string { return strings.Repeat("(", n) + "1" + strings.Repeat(")", n) }, maxDepth: 0},
				c09ChildProg{name: fmt.Sprintf("brackets-%d", n), gen: func() string { return strings.Repeat("[", n) + "1" + strings.Repeat("]", n) }, maxDepth: 0},
				c09ChildProg{name: fmt.Sprintf("prefix-%d", n), gen: func() string { return strings.Repeat("-", n) + "1" }, maxDepth: 0},
				c09ChildProg{name: fmt.Sprintf("blocks-%d", n), gen: func() string { return strings.Repeat("if true {", n) + "1" + strings.Repeat("}", n) }, maxDepth: 0},
				c09ChildProg{name: fmt.Sprintf("lambdas-%d", n), gen: func() string { return strings.Repeat("x=>", n) + "1" }, maxDepth: 0},
				c09ChildProg{name: fmt.Sprintf("index-%d", n), gen: func() string { return "a" + strings.Repeat("[0]", n) }, maxDepth: 0},
				c09ChildProg{name: fmt.Sprintf("infix-%d", n), gen: func() string { return "1" + strings.Repeat("+1", n) }, maxDepth: 0},
				c09ChildProg{name: fmt.Sprintf("calls-%d", n), gen: func() string { return strings.Repeat("f(", n) + "1" + strings.Repeat(")", n) }, maxDepth: 0},
				c09ChildProg{name: fmt.Sprintf("callchain-%d", n), gen: func() string { return "f" + strings.Repeat("()", n) }, maxDepth: 0},
				c09ChildProg{name: fmt.Sprintf("dotchain-%d", n), gen: func() string { return "m" + strings.Repeat(".a", n) }, maxDepth: 0},
				c09ChildProg{name: fmt.Sprintf("mixed-%d", n), gen: func() string {
					return strings.Repeat("(", n/9000+1) + "1" + strings.Repeat(strings.Repeat("+1", 9000)+")", n/9000+1)
				}, maxDepth: 0},
				c09ChildProg{name: fmt.Sprintf("mixedwide-%d", n), gen: func() string {
					k := n/30000 + 3 // chains just under the parser's tree-depth limit, nested in parentheses on their left end
					return strings.Repeat("(", k) + "1" + strings.Repeat(strings.Repeat("+1", 90000)+")", k)
				}},
				c09ChildProg{name: fmt.Sprintf("stmts-%d", n), gen: func() string { return strings.Repeat("1;", n) }, maxDepth: 0},
				c09ChildProg{name: fmt.Sprintf("elseif-%d", n), gen: func() string { return strings.Repeat("if false {1} else ", n) + "{2}" }, maxDepth: 0},
			)
		}
		// recursion whose Go stack use per counted depth level is large: nested literals / arguments / operators /
		// blocks around the recursive call are evaluated without counting towards MaxDepth
		wrap := func(open, close string, k int) string {
			return "func f(n) { " + strings.Repeat(open, k) + "f(n + 1)" + strings.Repeat(close, k) + " }; f(0)"
		}
		mds := []int{0, 100, 1000, 10000, 100000, 1 << 30}
		if quick {
			mds = []int{0, 1000, 1 << 30}
		}
		for _, md := range mds {
			md := md
			for _, k := range []int{30, 3000} {
				k := k
				for _, sh := range [][3]string{{"brackets", "[", "]"}, {"args", "g(", ")"}, {"neg", "-(", ")"}, {"maps", "{1: ", "}"}, {"index", "a[", "]"}, {"plus", "(1 + ", ")"}, {"ifs", "if true { ", " }"}, {"lambdas", "(() => ", ")()"},
					// builtins, statements and index forms whose own Go frames are the large ones
					{"print", "print(", ")"}, {"println", "println(", ")"}, {"log", "log(", ")"}, {"error", "error(", ")"}, {"catch", "catch(", ")"},
					{"del", "del(m[", "])"}, {"sliceR", "[1, 2, 3][0:", "]"}, {"sliceL", "[1, 2, 3][", ":3]"}, {"assign", "(x = ", ")"}, {"idxassign", "(a[0] = ", ")"},
					{"first", "first([", "])"}, {"lenstr", "len(str(", "))"}, {"ext", "max(1, ", ")"}, {"sprintf", "sprintf(\"%v\", ", ")"}, {"forint", "for 1 { ", " }"},
					{"dot", "{\"k\": ", "}.k"}, {"ifcond", "if (", ") { 1 }"}, {"and", "(true && ", ")"}, {"type", "type(", ")"}} {
					sh := sh
					out = append(out, c09ChildProg{name: fmt.Sprintf("heavy-%s-k%d-md%d", sh[0], k, md), gen: func() string { return wrap(sh[1], sh[2], k) }, maxDepth: md})
				}
			}
			out = append(out, c09ChildProg{name: fmt.Sprintf("heavy-return-md%d", md), gen: func() string {
				return "func f(n) { if n < 0 { return 0 } else { return 1 + f(n + 1) } }; f(0)"
			}, maxDepth: md})
			for i, body := range []string{"f(n + 1)", "println(f(n + 1))", "a = f(n + 1)", "m = {}; m[1] = f(n + 1)", "for 1 { if true { return f(n + 1) } }", "x = n => f(n + 1); x(n)"} {
				body := body
				out = append(out, c09ChildProg{name: fmt.Sprintf("heavy-plain%d-md%d", i, md), gen: func() string { return "func f(n) { " + body + " }; f(0)" }, maxDepth: md})
			}
			out = append(out, c09ChildProg{name: fmt.Sprintf("heavy-args-md%d", md), gen: func() string { return "func f(a, b, c, d, e, g) { f(a + 1, b, c, d, e, g) }; f(0, 0, 0, 0, 0, 0)" }, maxDepth: md})
			out = append(out, c09ChildProg{name: fmt.Sprintf("heavy-variadic-md%d", md), gen: func() string { return "func f(n, ..) { f(n + 1, ..) }; f(0, 1, 2, 3)" }, maxDepth: md})
			out = append(out, c09ChildProg{name: fmt.Sprintf("heavy-lambda-md%d", md), gen: func() string { return "f = func(n) { f(n + 1) }; f(0)" }, maxDepth: md})
			out = append(out, c09ChildProg{name: fmt.Sprintf("heavy-loops-md%d", md), gen: func() string {
				return "func f(n) { for 1 { for e = [1] { for kv = {1: 2} { if true { return [f(n + 1)] } } } } }; f(0)"
			}, maxDepth: md})
			if md > 0 && md <= 10000 {
				// bounded recursion (2 x the limit) inside a macro body, through eval() and unjson(): the configured limit
				// must be the one that stops it (a state created on the side with the default limit would let it finish)
				rec := fmt.Sprintf("rr = func(n) { if n == 0 { 42 } else { rr(n - 1) } }; rr(%d)", 2*md)
				out = append(out,
					c09ChildProg{name: fmt.Sprintf("limit-macro-md%d", md), gen: func() string { return "m = macro(x) { " + rec + "; quote(unquote(x)) }; m(1)" }, maxDepth: md, expect: "max depth"},
					c09ChildProg{name: fmt.Sprintf("limit-eval-md%d", md), gen: func() string { return "eval(" + strconv.Quote(rec) + ")" }, maxDepth: md, expect: "max depth"},
					c09ChildProg{name: fmt.Sprintf("limit-unjson-md%d", md), gen: func() string { return "unjson(" + strconv.Quote(rec) + ")" }, maxDepth: md, expect: "max depth"},
					c09ChildProg{name: fmt.Sprintf("limit-plain-md%d", md), gen: func() string { return rec }, maxDepth: md, expect: "max depth"},
				)
			}
		}
		// evaluation that happens outside the main state: macro expansion time, eval(), unjson(), read() then loop
		out = append(out,
			// unwinding a deep recursion once the deadline has passed, and showing a deeply nested value, must not
			// cost more per level the deeper it is
			c09U("ifcond", "func f(n) { if f(n + 1) { 1 } }; f(0)"),
			c09U("catchthen", "func f(n) { catch(f(n + 1)); 1 }; f(0)"),
			c09U("logthen", "func f(n) { log(f(n + 1)); 1 }; f(0)"),
			c09U("slice", "func f(n) { [1, 2, 3][f(n + 1):f(n)] }; f(0)"),
			c09U("catch3", "func f(n) { catch(catch(catch(f(n + 1)))) }; f(0)"),
			c09U("error", "func f(n) { r = catch(f(n + 1)); error(\"e\", n) }; f(0)"),
			c09U("assign", "func f(n) { "+strings.Repeat("(x = ", 3000)+"f(n + 1)"+strings.Repeat(")", 3000)+" }; f(0)"),
			c09U("sprintf", "func f(n) { sprintf(\"%v\", catch(f(n + 1))) }; f(0)"),
			c09U("println", "func f(n) { println(catch(f(n + 1))) }; f(0)"),
			c09U("json", "func f(n) { json(catch(f(n + 1))) }; f(0)"),
			c09U("del", "m = {}; func f(n) { del(m[catch(f(n + 1)).value]) }; f(0)"),
			c09U("mapkey", "func f(n) { {catch(f(n + 1)): 1} }; f(0)"),
			c09U("logarg", "func f(n) { x = [log(f(n + 1)), n]; x }; f(0)"),
			c09U("index", "func f(n) { [1, 2, 3][f(n + 1)] }; f(0)"),
			c09U("forcond", "func f(n) { for f(n + 1) { 1 } }; f(0)"),
			c09U("not", "func f(n) { !(-(f(n + 1))) }; f(0)"),
			c09P("show-deep-array", "a = []; for 300000 { a = [a] }; a"),
			c09P("show-deep-map", "a = {}; for 300000 { a = {1: a} }; println(a)"),
			c09P("show-deep-mixed", "a = {}; for 200000 { a = [{\"k\": a}, 1] }; print(a, a)"),
			c09P("use-deep-array", "a = []; for 300000 { a = [a] }; b = a; m = {a: 1}; [a == b, a < b, len(str(a)), json(a) == json(b), m[b]]"),
			c09P("macro-time-loop", "m = macro(x) { for true { }; quote(unquote(x)) }; m(1)"),
			c09P("macro-time-recursion", "m = macro(x) { f = func(n) { f(n + 1) }; f(0); quote(unquote(x)) }; m(1)"),
			c09P("macro-time-growth", "m = macro(x) { a = [1, 2, 3, 4, 5, 6, 7, 8, 9]; for 60 { a = a + a }; quote(unquote(x)) }; m(1)"),
			c09P("macro-arg-nesting", "m = macro(x) { quote(unquote(x) + unquote(x)) }; "+strings.Repeat("m(", 40)+"1"+strings.Repeat(")", 40)),
			c09P("eval-loop", `eval("for true { }")`),
			c09P("eval-recursion", `eval("func r(n) { r(n + 1) }; r(0)")`),
			c09P("eval-nested-eval", `func e(n) { eval("e(" + str(n + 1) + ")") }; e(0)`),
			c09P("eval-deep-source", `eval("(" * 1000000 + "1" + ")" * 1000000)`),
			c09P("unjson-deep", `unjson("[" * 1000000 + "]" * 1000000)`),
			c09P("unjson-deep-map", `unjson("{\"a\":" * 1000000 + "1" + "}" * 1000000)`),
			c09P("unjson-loop", `unjson("for true { }")`),
			c09P("unjson-recursion", `unjson("func r(n) { r(n + 1) }; r(0)")`),
			c09P("unjson-growth", `unjson("a = [1, 2, 3, 4, 5, 6, 7, 8, 9]; for 60 { a = a + a }")`),
			c09P("eval-growth", `eval("a = [1, 2, 3, 4, 5, 6, 7, 8, 9]; for 60 { a = a + a }")`),
			c09P("read-then-loop", "l = read(); for true { }"),
			c09P("read-then-recursion", "l = read(); println(l); func r(n) { r(n + 1) }; r(0)"),
			c09P("read-twice-then-growth", "l = read(); l2 = read(); a = [l, l2]; for true { a = a + a }"),
			c09P("read-in-loop", "for true { l = catch(read()) }"),
			c09P("ctx-parent-deadline", "for true { }"), // (run with a caller context that has its own, much later, deadline)
			c09P("ctx-parent-cancel", "for true { }"),   // (caller context without deadline, cancellable)
			c09P("value-nesting-print", "a = []; for 100000000 { a = [a] }; println(len(str(a)))"),
			c09P("value-nesting-compare", "a = []; b = []; for 100000000 { a = [a]; b = [b] }; a == b"),
			c09P("value-nesting-json", "a = []; for 100000000 { a = [a] }; json(a)"),
			c09P("value-nesting-map", "m = {}; for 100000000 { m = {1: m} }; m == m"),
		)
		out = append(out,
			c09P("default-depth-recursion", "func r(n) { r(n + 1) }; r(0)"),
			c09P("default-depth-mutual", "func a(n) { b(n + 1) }; func b(n) { a(n + 1) }; a(0)"),
			c09P("default-depth-closure", "mk = func(k) { inner = mk(k + 1); () => inner() }; mk(0)"),
		)
	case "mem":
		for _, n := range []string{"1000000", "100000000", "2147483648", "1152921504606846976", "4611686018427387904", "9223372036854775807", "4611686018427387905", "6148914691236517206"} {
			out = append(out,
				c09P("str*"+n, `x = "abcd" * `+n+"; len(x)"),
				c09P("arr*"+n, "x = [1, 2, 3, 4] * "+n+"; len(x)"),
				c09P("range"+n, "x = 0:"+n+"; len(x)"),
				c09P("negrange"+n, "x = -"+n+":0; len(x)"),
			)
		}
		out = append(out,
			c09P("retained-medium-arrays", "a = []; for i = 3000 { a = a + [[0] * 1000000] }; len(a)"),
			c09P("retained-medium-strings", "a = []; for i = 3000 { a = a + [\"x\" * 8000000 + str(i)] }; len(a)"),
			c09P("retained-medium-maps", "m = {}; for i = 3000 { m[i] = 0:1000000 }; len(m)"),
			c09P("string-doubling", `s = "abcdefgh"; for 60 { s = s + s }; len(s)`),
			c09P("array-doubling", "a = [1, 2, 3, 4, 5, 6, 7, 8, 9]; for 60 { a = a + a }; len(a)"),
			c09P("array-append-loop", "a = []; for true { a = a + [a] }"),
			c09P("string-mult-doubling", `s = "ab"; for 70 { s = s * 2 }; len(s)`),
			c09P("array-mult-doubling", "a = [1, 2, 3]; for 70 { a = a * 2 }; len(a)"),
			c09P("map-merge-doubling", "m = {}; for i = 100 { m = m + {i: m} }; len(m)"),
			c09P("join-big", `a = ["abcdefgh"] * 1000000; s = join(a, "x"); for 40 { a = a + a; s = join(a) }; len(s)`),
			c09P("split-big", `s = "a," * 10000000; for 10 { s = s + s; p = split(s, ",") }; len(p)`),
			c09P("runes-big", `s = "ab" * 50000000; for 10 { s = s + s; r = runes(s) }; len(r)`),
			c09P("nested-array-doubling", "a = [[1, 2, 3, 4, 5, 6, 7, 8, 9]]; for 60 { a = a + a }; len(a)"),
			c09P("infinite-loop", "for true { }"),
			c09P("infinite-recursion-sleep", "for true { sleep(0.01) }"),
			c09P("big-sleep", "sleep(100)"),
		)
	}
	return out
}

// c09Child runs each program in this (child) process through repl.EvalOne with a 1 s deadline and reports timing.
func c09Child(args []string) int {
	if len(args) < 2 {
		return 2
	}
	kind, quick := args[0], args[1] == "quick"
	if kind == "memseq" {
		return c09MemSeqChild(quick, args[2:])
	}
	var only string
	if len(args) > 2 {
		only = args[2]
	}
	for _, p := range c09ChildPrograms(kind, quick) {
		if only != "" && p.name != only {
			continue
		}
		x := newSess(sessCfg{maxDepth: p.maxDepth})
		x.opts.MaxDuration = time.Second
		if strings.HasPrefix(p.name, "heavy-") || strings.HasPrefix(p.name, "limit-") || strings.Contains(p.name, "doubling") || strings.Contains(p.name, "retained") || strings.Contains(p.name, "growth") {
			// these end by the depth / nesting limit (or kill the process): no deadline in the way, so that the
			// outcome does not depend on how fast the machine is (a 15 s deadline instead of 1 s; slower shapes end by it)
			x.opts.MaxDuration = 15 * time.Second
		}
		fmt.Printf("C09START %s\n", p.name)
		src := p.gen()
		// CPU time of this process (not wall-clock time, which stretches when the machine is loaded): the evaluator is
		// CPU bound, so an evaluation that goes on long after its deadline shows as CPU time; one that blocks
		// without using CPU is caught by the parent's watchdog
		cpu0 := c09CPU()
		var r stepRec
		descent := time.Duration(-1)
		switch {
		case p.cancelAt > 0:
			cc := &c09CancelCtx{Context: context.Background(), limit: p.cancelAt}
			x.s.Context = cc
			func() {
				defer func() {
					if rr := recover(); rr != nil {
						r.panicked = true
						r.errs = []string{fmt.Sprint(rr)}
						x.s.Reset()
					}
				}()
				pr := parseText([]byte(src), false)
				if o := object.Value(x.s.Eval(pr.prog)); o.Type() == object.ERROR {
					r.errs = []string{o.(object.Error).Value}
				}
			}()
			x.s.Context = nil
			if cc.at > 0 {
				descent = cc.at - cpu0
				cpu0 = cc.at // ms below is the unwinding alone
			}
		}
		switch p.name {
		case "ctx-parent-deadline":
			ctx, cancel := context.WithTimeout(context.Background(), time.Minute)
			r = x.stepCtx(ctx, src)
			cancel()
		case "ctx-parent-cancel":
			ctx, cancel := context.WithCancel(context.Background())
			r = x.stepCtx(ctx, src)
			cancel()
		default:
			if p.cancelAt == 0 {
				r = x.step(src)
			}
		}
		el := c09CPU() - cpu0
		class := "value"
		switch {
		case r.panicked:
			class = "panic:" + errTemplate(strings.Join(r.errs, ";"))
		case len(r.errs) > 0:
			class = "error:" + errTemplate(r.errs[0])
		}
		x.opts.MaxDuration = 0 // the probe itself runs without a deadline (a loaded machine must not fail it)
		nx := x.step("println(40 + 2)")
		// peak RSS of this address space (getrusage's maxrss also carries the spawning process's peak over exec)
		hwm := 0
		if st, err := os.ReadFile("/proc/self/status"); err == nil {
			for _, l := range strings.Split(string(st), "\n") {
				if strings.HasPrefix(l, "VmHWM:") {
					fmt.Sscanf(strings.TrimSpace(strings.TrimPrefix(l, "VmHWM:")), "%d", &hwm)
				}
			}
		}
		if p.expect != "" && !strings.Contains(class, p.expect) {
			class = "UNEXPECTED(" + p.expect + "):" + class
		}
		fmt.Printf("C09DONE %s srcmb=%d ms=%d descent_ms=%d next=%q maxrss_kb=%d class=%s\n", p.name, len(src)>>20, el.Milliseconds(), descent.Milliseconds(), strings.TrimSpace(nx.out), hwm, class)
		debug.FreeOSMemory()
	}
	fmt.Println("C09END")
	return 0
}

func c09Tail(s string, n int) string {
	if len(s) > n {
		// the start (which program, the first goroutine) and the end
		return s[:n/2] + " ... " + s[len(s)-n/2:]
	}
	return s
}

// ---- histories of memory-limit changes and growth operations in one process ----
//
// A host (the wasm entry point, a library user) configures the limit with debug.SetMemoryLimit at any time: the guard
// must follow the limit in force when the operation runs, whatever was evaluated under earlier limits.

var c09MemSeqActions = []string{"limit=none", "limit=high", "limit=low", "len([0] * 1000)", "len([0] * 1000000)", "len(0:1000000)", `len("ab" * 8000000)`, "a = [1, 2, 3, 4] * 200000; len(a + a + a)",
	// values are values under every limit: an array shared by two variables, updated through one of them when there is no room for a copy
	"sa = [0] * 600000; sb = sa; len(sb)", "sa[0] = 1; println(\"SHARED\", sb[0])"}

func c09MemSeqChild(quick bool, only []string) int {
	depth := 4
	if quick {
		depth = 3
	}
	var runOne func(seq []int) string
	runOne = func(seq []int) string {
		debug.SetMemoryLimit(1 << 62)
		x := newSess(sessCfg{})
		level := "none"
		for pos, a := range seq {
			act := c09MemSeqActions[a]
			switch act {
			case "limit=none":
				debug.SetMemoryLimit(1 << 62)
				level = "none"
			case "limit=high", "limit=low":
				runtime.GC()
				var ms runtime.MemStats
				runtime.ReadMemStats(&ms)
				extra := int64(2 << 30)
				if act == "limit=low" {
					extra = 6 << 20
				}
				debug.SetMemoryLimit(int64(ms.HeapAlloc) + extra)
				level = act[6:]
			default:
				r := x.step(act)
				refused := r.panicked || len(r.errs) > 0
				big := a >= 4
				if strings.HasPrefix(act, "sa[0] = 1") {
					// (fails when sa was never built or when the copy is refused: both fine; when it runs, sb is untouched)
					if strings.Contains(r.out, "SHARED 1") {
						return fmt.Sprintf("step %d: %s changed the other variable sharing the array (limit %s): %s", pos, act, level, strings.TrimSpace(r.out))
					}
					continue
				}
				fmt.Printf("C09MEMSEQ-OBS %s %v %v\n", level, big, refused)
				if big && level == "low" && !refused {
					return fmt.Sprintf("step %d: %s was granted (%s) with the limit at heap + 6 MiB (it needs 16 MiB or more)", pos, act, strings.TrimSpace(r.out))
				}
				if refused && !strings.Contains(strings.Join(r.errs, " "), "would exceed memory") {
					return fmt.Sprintf("step %d: %s failed with %q", pos, act, r.errs)
				}
				if !big && refused && level != "low" {
					// (under the low limit an earlier, unguarded copy - the update of the shared array - may have used the
					// room up: a refusal then is the guard doing its job)
					return fmt.Sprintf("step %d: %s refused under limit %s", pos, act, level)
				}
				_ = x.step("del(a)")
			}
		}
		return ""
	}
	if len(only) > 0 {
		var seq []int
		for _, f := range strings.Split(only[0], ",") {
			n, _ := strconv.Atoi(f)
			seq = append(seq, n)
		}
		fmt.Printf("C09MEMSEQ-RESULT %v %q\n", seq, runOne(seq))
		return 0
	}
	n := 0
	var rec func(seq []int)
	rec = func(seq []int) {
		if len(seq) > 0 && seq[len(seq)-1] >= 3 { // ends with an evaluation
			n++
			if v := runOne(seq); v != "" {
				var names []string
				for _, a := range seq {
					names = append(names, c09MemSeqActions[a])
				}
				fmt.Printf("C09MEMSEQ-VIOL %s | %s | %s\n", strings.Trim(strings.ReplaceAll(fmt.Sprint(seq), " ", ","), "[]"), strings.Join(names, " ; "), v)
			}
		}
		if len(seq) == depth {
			return
		}
		for a := range c09MemSeqActions {
			if len(seq) > 0 && a < 3 && seq[len(seq)-1] < 3 {
				continue // two limit changes in a row: only the last one counts
			}
			rec(append(append([]int{}, seq...), a))
		}
	}
	rec(nil)
	fmt.Printf("C09MEMSEQ-END %d\n", n)
	return 0
}

func c09MemSeq(c *core.Ctx, bounds *[]string) {
	if !c.MineNoDedup("child", "memseq") {
		return
	}
	self, _ := os.Executable()
	tier := "quick"
	if !c.Quick() {
		tier = "thorough"
	}
	cmd := exec.Command("bash", "-c", fmt.Sprintf("ulimit -v %d; exec %q C09-child memseq %s", 8<<20, self, tier))
	cmd.Env = append(os.Environ(), "GOMAXPROCS=2")
	cs := core.Case{Kind: "memseq", Data: "all"}
	// (the child takes minutes in the thorough tier: keep telling the worker's watchdog that this is progress)
	stop := make(chan struct{})
	go func() {
		for i := 0; i < 120; i++ { // at most 20 minutes of patience
			select {
			case <-stop:
				return
			case <-time.After(10 * time.Second):
				c.Current(core.Case{Kind: "memseq", Data: fmt.Sprintf("all (child running, %d s)", (i+1)*10)})
			}
		}
	}()
	out, err := cmd.CombinedOutput()
	close(stop)
	text := string(out)
	if err != nil || !strings.Contains(text, "C09MEMSEQ-END") {
		c.Report(&core.Viol{Class: "memseq:process-death", Detail: fmt.Sprintf("%v %s", err, c09Tail(text, 1500)), Case: cs})
		return
	}
	obs := map[string]int{}
	total := 0
	for _, l := range strings.Split(text, "\n") {
		switch {
		case strings.HasPrefix(l, "C09MEMSEQ-OBS "):
			obs[l[14:]]++
		case strings.HasPrefix(l, "C09MEMSEQ-END "):
			fmt.Sscanf(l, "C09MEMSEQ-END %d", &total)
		case strings.HasPrefix(l, "C09MEMSEQ-VIOL "):
			f := strings.SplitN(l[15:], " | ", 3)
			if len(f) == 3 {
				c.Report(&core.Viol{Class: "memseq:guard-ignores-current-limit", Detail: f[2] + " in history " + f[1], Case: core.Case{Kind: "memseq", Cfg: f[0], Data: f[1]}})
			}
		}
	}
	// vacuity: big operations were both granted (no / high limit) and refused (low limit)
	if obs["none true false"] == 0 || obs["high true false"] == 0 || obs["low true true"] == 0 {
		c.Report(&core.Viol{Class: "memseq:HARNESS-vacuous", Detail: fmt.Sprint(obs), Case: cs})
	}
	for i := 0; i < total; i++ {
		c.CountNT(fmt.Sprintf("memseq %d", i), "memseq:ok", true)
	}
	*bounds = append(*bounds, fmt.Sprintf("memory-limit histories: every sequence of up to %d actions over %d (limit none / heap+2 GiB / heap+6 MiB set with debug.SetMemoryLimit; a small and 4 large growth operations) ending with an evaluation, %d histories in one child process: a large operation under the low limit is refused whatever ran under earlier limits, nothing else fails (observed: %v)", map[bool]int{true: 3, false: 4}[c.Quick()], len(c09MemSeqActions), total, obs))
}

func c09CPU() time.Duration {
	var ru syscall.Rusage
	if err := syscall.Getrusage(syscall.RUSAGE_SELF, &ru); err != nil {
		return 0
	}
	return time.Duration(ru.Utime.Nano() + ru.Stime.Nano())
}

func c09Children(c *core.Ctx, bounds *[]string) {
	self, _ := os.Executable()
	tier := "quick"
	if !c.Quick() {
		tier = "thorough"
	}
	type job struct {
		kind  string
		prog  c09ChildProg
		limit int // GOMEMLIMIT MiB
	}
	var jobs []job
	for _, p := range c09ChildPrograms("deep", c.Quick()) {
		jobs = append(jobs, job{"deep", p, 1024})
	}
	limits := []int{64, 256}
	if !c.Quick() {
		limits = []int{64, 128, 256}
	}
	for _, lim := range limits {
		for _, p := range c09ChildPrograms("mem", c.Quick()) {
			jobs = append(jobs, job{"mem", p, lim})
		}
	}
	var wg sync.WaitGroup
	sem := make(chan struct{}, 2) // x 16 workers: up to 32 children, each up to ~0.5 GB of Go stack
	var mu sync.Mutex
	for _, j := range jobs {
		if !c.MineNoDedup("child", fmt.Sprintf("%s|%s|%d", j.kind, j.prog.name, j.limit)) {
			continue
		}
		wg.Add(1)
		go func(j job) {
			defer wg.Done()
			sem <- struct{}{}
			defer func() { <-sem }()
			// one child per program: a fatal error (stack overflow, out of memory) is attributed to it
			cmd := exec.Command("bash", "-c", fmt.Sprintf("ulimit -v %d; exec %q C09-child %s %s %q", 8<<20, self, j.kind, tier, j.prog.name))
			cmd.Env = append(os.Environ(), fmt.Sprintf("GOMEMLIMIT=%dMiB", j.limit), "GOMAXPROCS=2")
			cmd.Stdin = strings.NewReader("a line for read()\nanother one\n") // (a pipe with data: read() returns, the program goes on)
			var buf bytes.Buffer
			cmd.Stdout = &buf
			cmd.Stderr = &buf
			t0 := time.Now()
			done := make(chan error, 1)
			_ = cmd.Start()
			go func() { done <- cmd.Wait() }()
			var err error
			timedOut := false
			select {
			case err = <-done:
			case <-time.After(180 * time.Second): // watchdog, far beyond deadline + 5 s even on a loaded machine
				_ = cmd.Process.Signal(syscall.SIGQUIT) // goroutine dump into the output, for the replay file
				select {
				case err = <-done:
				case <-time.After(10 * time.Second):
					_ = cmd.Process.Kill()
					err = <-done
				}
				timedOut = true
			}
			el := time.Since(t0)
			out := buf.String()
			mu.Lock()
			defer mu.Unlock()
			cs := core.Case{Kind: j.kind, Cfg: fmt.Sprintf("GOMEMLIMIT=%dMiB", j.limit), Data: j.prog.name + ": " + trunc(j.prog.gen(), 80)}
			outcome := ""
			switch {
			case timedOut:
				outcome = "watchdog"
				_ = os.WriteFile(filepath.Join(os.TempDir(), "c09-watchdog-"+j.prog.name+".txt"), []byte(out), 0o644)
				c.Report(&core.Viol{Class: j.kind + ":does-not-return", Detail: fmt.Sprintf("%s still running after %v (deadline 1 s); output: %s", j.prog.name, el, c09Tail(out, 3000)), Case: cs, FindText: j.prog.name})
			case err != nil || !strings.Contains(out, "C09END"):
				fatal := firstLine(out)
				for _, l := range strings.Split(out, "\n") {
					if strings.HasPrefix(l, "fatal error:") || strings.HasPrefix(l, "runtime:") || strings.HasPrefix(l, "panic:") {
						fatal = l
						break
					}
				}
				outcome = "process-death"
				c.Report(&core.Viol{Class: j.kind + ":process-death", Detail: fmt.Sprintf("%s: host process died: %v %s", j.prog.name, err, trunc(fatal, 200)), Case: cs, FindText: j.prog.name})
			default:
				var ms, rss, srcmb int
				descent := -1
				var next, class string
				for _, l := range strings.Split(out, "\n") {
					if strings.HasPrefix(l, "C09DONE ") {
						f := strings.Fields(l)
						for _, kv := range f[2:] {
							switch {
							case strings.HasPrefix(kv, "srcmb="):
								fmt.Sscanf(kv, "srcmb=%d", &srcmb)
							case strings.HasPrefix(kv, "ms="):
								fmt.Sscanf(kv, "ms=%d", &ms)
							case strings.HasPrefix(kv, "descent_ms="):
								fmt.Sscanf(kv, "descent_ms=%d", &descent)
							case strings.HasPrefix(kv, "next="):
								next = strings.Trim(strings.TrimPrefix(kv, "next="), `"`)
							case strings.HasPrefix(kv, "maxrss_kb="):
								fmt.Sscanf(kv, "maxrss_kb=%d", &rss)
							}
						}
						if i := strings.Index(l, "class="); i >= 0 {
							class = l[i+6:]
						}
					}
				}
				outcome = strings.SplitN(class, ":", 2)[0]
				if strings.HasPrefix(class, "UNEXPECTED(") {
					outcome = "limit-not-enforced"
					c.Report(&core.Viol{Class: j.kind + ":limit-not-enforced", Detail: j.prog.name + ": " + class, Case: cs, FindText: j.prog.name})
				}
				if strings.HasPrefix(class, "panic:") && !strings.Contains(class, "max depth") && !strings.Contains(class, "would exceed memory") {
					outcome = "other-panic"
					c.Report(&core.Viol{Class: j.kind + ":other-panic", Detail: j.prog.name + ": " + class, Case: cs, FindText: j.prog.name})
				}
				if ms > 6000+1000*srcmb && !strings.HasPrefix(j.prog.name, "heavy-") && !strings.HasPrefix(j.prog.name, "limit-") && !strings.Contains(j.prog.name, "doubling") && !strings.Contains(j.prog.name, "retained") && !strings.Contains(j.prog.name, "growth") { // deadline + 5 s + 1 s per MiB of source text (parsing and printing are outside the deadline)
					outcome = "late"
					c.Report(&core.Viol{Class: j.kind + ":returns-late", Detail: fmt.Sprintf("%s used %d ms of CPU time with a 1 s deadline", j.prog.name, ms), Case: cs, FindText: j.prog.name})
				}
				if j.prog.cancelAt > 0 {
					switch {
					case descent < 0:
						// the recursion ended by something else before the cancellation: the harness's bound is off
						c.Report(&core.Viol{Class: j.kind + ":HARNESS-cancellation-not-reached", Detail: j.prog.name + ": " + class, Case: cs, FindText: j.prog.name})
					case ms > 2*descent+500:
						outcome = "slow-unwinding"
						c.Report(&core.Viol{Class: j.kind + ":returns-late", Detail: fmt.Sprintf("%s: cancelled at its %d-th poll after %d ms of CPU time, then used %d ms more to return", j.prog.name, j.prog.cancelAt, descent, ms), Case: cs, FindText: j.prog.name})
					}
				}
				if next != "42" {
					outcome = "unusable"
					c.Report(&core.Viol{Class: j.kind + ":session-unusable-afterwards", Detail: fmt.Sprintf("%s: next input printed %q", j.prog.name, next), Case: cs, FindText: j.prog.name})
				}
				if j.kind == "mem" && rss > (4*j.limit+64)*1024 {
					outcome = "rss"
					c.Report(&core.Viol{Class: "mem:rss-exceeds-4x-limit", Detail: fmt.Sprintf("%s: peak RSS %d MiB with GOMEMLIMIT %d MiB", j.prog.name, rss/1024, j.limit), Case: cs, FindText: j.prog.name})
				}
			}
			c.CountNT(fmt.Sprintf("%s %s limit=%d", j.kind, j.prog.name, j.limit), j.kind+":"+outcome, true)
		}(j)
	}
	wg.Wait()
	*bounds = append(*bounds, fmt.Sprintf("child processes (ulimit -v 8GiB, 1 s deadline, CPU-time oracle, 180 s watchdog): %d deeply nested sources / default-depth recursions; %d growth programs (string*int, array*int, int:int with magnitudes around the budget, 2^31, 2^60, 2^62, 2^63-1 and wrapping products; doubling loops with + and *, join/split/runes, merge; non-terminating loops and sleep) x GOMEMLIMIT %v MiB: the child must survive, use no more than deadline+5 s (+1 s per MiB of source) of CPU time, stay usable and keep peak RSS <= 4x limit + 64 MiB", len(c09ChildPrograms("deep", c.Quick())), len(c09ChildPrograms("mem", c.Quick())), limits))
}

// c09CLI runs the grol command itself: the limits given on the command line must be in force in every mode.
func c09CLI(c *core.Ctx, bounds *[]string) {
	self, _ := os.Executable()
	grol := self + ".grol"
	if _, err := os.Stat(grol); err != nil {
		c.Note("cli-binary-missing", 1)
		return
	}
	dir, err := os.MkdirTemp("", "c09cli")
	if err != nil {
		return
	}
	defer os.RemoveAll(dir)
	depthRe := regexp.MustCompile(`max depth (\d+) reached`)
	progs := []struct{ name, src string }{
		{"recursion", "func r(n) { r(n + 1) }; r(0)"},
		{"mutual", "func a(n) { b(n + 1) }; func b(n) { a(n + 1) }; a(0)"},
		{"closure", "mk = func(k) { inner = mk(k + 1); () => inner() }; mk(0)"},
	}
	modes := []string{"file", "command", "shebang", "stdin-file", "second-file", "third-file-noreg"}
	okFile := filepath.Join(dir, "ok.gr")
	_ = os.WriteFile(okFile, []byte("x = 1\n"), 0o644)
	n := 0
	for _, md := range []int{10, 11, 50, 1000, 20000} {
		for pi, p := range progs {
			seen := map[string]string{}
			for _, mode := range modes {
				key := fmt.Sprintf("cli|depth|%d|%s|%s", md, p.name, mode)
				if !c.MineNoDedup("cli", fmt.Sprintf("cli|depth|%d|%d", md, pi)) { // all modes of one (limit, program) in one worker
					continue
				}
				file := filepath.Join(dir, fmt.Sprintf("p%d_%d.gr", md, pi))
				_ = os.WriteFile(file, []byte(p.src+"\n"), 0o644)
				args := []string{"-no-auto", "-max-depth", fmt.Sprint(md), "-max-duration", "20s"}
				var stdin io.Reader
				switch mode {
				case "file":
					args = append(args, file)
				case "command":
					args = append(args, "-c", p.src)
				case "shebang":
					args = append(args, "-s", file)
				case "stdin-file":
					args = append(args, "-")
					stdin = strings.NewReader(p.src + "\n")
				case "second-file": // several files: each one gets a state of its own
					args = append(args, okFile, file)
				case "third-file-noreg":
					args = append([]string{"-no-register"}, append(args, okFile, okFile, file)...)
				}
				cmd := exec.Command("bash", "-c", fmt.Sprintf("ulimit -v %d; exec \"$0\" \"$@\"", 8<<20), grol)
				cmd.Args = append(cmd.Args, args...)
				cmd.Env = append(os.Environ(), "GOMEMLIMIT=1GiB", "NO_COLOR=1")
				cmd.Stdin = stdin
				cmd.Dir = dir
				var buf bytes.Buffer
				cmd.Stdout, cmd.Stderr = &buf, &buf
				err := runWithTimeout(cmd, 180*time.Second)
				out := buf.String()
				cs := core.Case{Kind: "cli", Cfg: fmt.Sprintf("-max-depth %d mode=%s", md, mode), Data: p.src}
				outcome := "limit-enforced"
				m := depthRe.FindStringSubmatch(out)
				switch {
				case err == errTimeout:
					outcome = "does-not-return"
				case strings.Contains(out, "fatal error:") || strings.Contains(out, "goroutine stack exceeds"):
					outcome = "process-death"
				case strings.Contains(out, "flag provided but not defined") || strings.Contains(out, "no such file"):
					outcome = "mode-not-available"
				case m == nil:
					outcome = "no-max-depth-failure"
				default:
					seen[mode] = m[1]
				}
				if outcome != "limit-enforced" && outcome != "mode-not-available" {
					c.Report(&core.Viol{Class: "cli:" + outcome, Detail: fmt.Sprintf("grol %s: %s", strings.Join(args[:min(5, len(args))], " "), trunc(lastLines(out, 3), 300)), Case: cs, FindText: mode})
				}
				c.CountNT(key, "cli:"+outcome, true)
				n++
			}
			// the limit in force must be the same in every mode (the one the flag asks for)
			ref := ""
			for _, mode := range modes {
				v, ok := seen[mode]
				if !ok {
					continue
				}
				if ref == "" {
					ref = v
				}
				if v != ref {
					c.Report(&core.Viol{Class: "cli:limit-differs-between-modes", Detail: fmt.Sprintf("-max-depth %d: %v", md, seen), Case: core.Case{Kind: "cli", Cfg: fmt.Sprintf("-max-depth %d", md), Data: p.src}, FindText: mode})
					break
				}
			}
			if ref != "" && ref != fmt.Sprint(md+1) && ref != fmt.Sprint(md) {
				c.Report(&core.Viol{Class: "cli:limit-not-the-configured-one", Detail: fmt.Sprintf("-max-depth %d reported %s", md, ref), Case: core.Case{Kind: "cli", Cfg: fmt.Sprintf("-max-depth %d", md), Data: p.src}})
			}
		}
	}
	// deadline on the command line
	for _, mode := range []string{"file", "command"} {
		for _, d := range []string{"1ms", "50ms", "1s"} {
			if !c.MineNoDedup("cli", "cli|deadline|"+mode+d) {
				continue
			}
			src := "for true { }"
			file := filepath.Join(dir, "loop.gr")
			_ = os.WriteFile(file, []byte(src+"\n"), 0o644)
			args := []string{"-no-auto", "-max-duration", d}
			if mode == "file" {
				args = append(args, file)
			} else {
				args = append(args, "-c", src)
			}
			cmd := exec.Command(grol, args...)
			cmd.Env = append(os.Environ(), "GOMEMLIMIT=1GiB", "NO_COLOR=1")
			var buf bytes.Buffer
			cmd.Stdout, cmd.Stderr = &buf, &buf
			t0 := time.Now()
			err := runWithTimeout(cmd, 120*time.Second)
			outcome := "returns"
			cpu := time.Duration(0)
			if cmd.ProcessState != nil {
				cpu = cmd.ProcessState.UserTime() + cmd.ProcessState.SystemTime()
			}
			if err == errTimeout || cpu > 6*time.Second {
				outcome = "does-not-return"
				c.Report(&core.Viol{Class: "cli:deadline-ignored", Detail: fmt.Sprintf("grol %s still running after %v", strings.Join(args, " "), time.Since(t0)), Case: core.Case{Kind: "cli", Cfg: "-max-duration " + d + " mode=" + mode, Data: src}})
			}
			c.CountNT("cli|deadline|"+mode+"|"+d, "cli:"+outcome, true)
			n++
		}
	}
	*bounds = append(*bounds, "command line: grol -max-depth {10,11,50,1000,20000} x 3 recursion programs x modes {file, -c, shebang, stdin, second of 2 files, third of 3 files with -no-register}: the configured limit is enforced and is the same in every mode; -max-duration {1ms,50ms,1s} x {file,-c} on a non-terminating loop")
}

var errTimeout = fmt.Errorf("timeout")

func runWithTimeout(cmd *exec.Cmd, d time.Duration) error {
	if err := cmd.Start(); err != nil {
		return err
	}
	done := make(chan error, 1)
	go func() { done <- cmd.Wait() }()
	select {
	case err := <-done:
		return err
	case <-time.After(d):
		_ = cmd.Process.Kill()
		<-done
		return errTimeout
	}
}

func lastLines(s string, n int) string {
	l := strings.Split(strings.TrimRight(s, "\n"), "\n")
	if len(l) > n {
		l = l[len(l)-n:]
	}
	return strings.Join(l, " | ")
}

func runC09(c *core.Ctx) {
	var bounds []string
	c09Cancellation(c, &bounds)
	if !c.Expired() {
		c09Depth(c, &bounds)
	}
	if !c.Expired() {
		c09Children(c, &bounds)
		c09MemSeq(c, &bounds)
	}
	if !c.Expired() {
		c09CLI(c, &bounds)
	}
	c.P.Bound = strings.Join(bounds, "; ")
}

var _ = repl.Options{}

func init() {
	core.RegisterChild("C09-child", c09Child)
	core.Register(&core.Check{
		ID:          "C09",
		Level:       "fault_enumeration",
		Rule:        "(1) cancellation instants enumerated exhaustively: for each program of a family the number N of context polls of a bounded run is measured, then the program is run on a fresh state for every k in 0..min(N,H) with a counting context that reports cancellation from the k-th poll on; oracle: Eval returns an error, at most |program tokens| further polls happen after the instant, the session is usable afterwards. (2) depth limits: MaxDepth values x 8 recursion/nesting shapes x every nesting count around the limit through repl.EvalOne: a monotone threshold, 'max depth' reported as a recovered panic, next input evaluates normally. (3) child processes with GOMEMLIMIT and an address-space limit: deeply nested source texts, default-depth recursions, every growth operator with magnitudes around the memory budget and overflow boundaries, doubling loops, non-terminating loops under a 1 s deadline: the child survives, returns within deadline + 5 s, stays usable, peak RSS <= 4 x limit + 64 MiB. Non-trivial = every case. (3b) recursions cancelled at a fixed poll count (deterministic depth): the unwinding may cost at most 2x the descent + 0.5 s of CPU; builtin/statement/index shapes nested around the recursive call with no depth limit (the evaluator's nesting bound must come before a Go stack overflow); showing and using 300k-deep values. (3c) memory-limit histories: every sequence of <=3 (thorough 4) actions over {SetMemoryLimit none/high/low, small and large growth operations} in one process: a large operation under the low limit is refused whatever ran before. (4) the grol command: -max-depth in every mode including the 2nd/3rd of several files. Round 7: the children read their standard input from a pipe holding data (read() returns, then the program loops / recurses / grows).",
		Assume:      []string{"wall-clock and RSS oracles use generous constants (deadline + 5 s, 4 x limit + 64 MiB): they only detect gross violations", "cancellation is modelled by a counting context; real timers are only used in part (3)"},
		QuickCap:    240 * time.Second,
		ThoroughCap: 20 * time.Minute,
		HangLimit:   300 * time.Second,
		Run:         runC09,
		Replay: func(c *core.Ctx, cs core.Case) *core.Viol {
			if cs.Kind == "cancel" {
				var k int
				var noReg bool
				fmt.Sscanf(cs.Cfg, "k=%d noReg=%t", &k, &noReg)
				polls, rec, after := c09CancelAt(cs.Data, k, noReg)
				if !rec.isErr && polls > k {
					return &core.Viol{Class: "cancel:no-error-after-cancellation", Case: cs}
				}
				if polls-k > c09CountNodes(cs.Data) {
					return &core.Viol{Class: "cancel:keeps-evaluating", Detail: fmt.Sprint(polls - k), Case: cs}
				}
				if strings.TrimSpace(after) != "42" {
					return &core.Viol{Class: "cancel:session-unusable-afterwards", Case: cs}
				}
				return nil
			}
			if cs.Kind == "memseq" {
				return &core.Viol{Class: "replay-by-child", Detail: "run: bin/vcheck C09-child memseq quick " + cs.Cfg, Case: cs}
			}
			return &core.Viol{Class: "replay-by-child", Detail: "run: GOMEMLIMIT=256MiB bin/vcheck C09-child " + cs.Kind + " quick '" + strings.SplitN(cs.Data, ":", 2)[0] + "'", Case: cs}
		},
	})
}
