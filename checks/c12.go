package checks

import (
	"fmt"
	"io"
	"math"
	"strings"
	"time"

	"grol.io/grol/eval"
	"grol.io/grol/object"
	"verif/internal/core"
	"verif/internal/obs"
	"verif/internal/ref"
)

// C12 — ordering and equality are coherent and total.

type c12Val struct {
	src    string
	ref    ref.Value
	opaque bool   // function / extension / quote: no reference ordering, axioms only
	eqTag  string // opaque values with the same tag must be order-equivalent and ==
}

func c12Universe(quick bool) []c12Val {
	var u []c12Val
	add := func(v ref.Value) { u = append(u, c12Val{src: ref.Source(v), ref: v}) }
	p53 := int64(1) << 53
	for _, i := range []int64{0, 1, -1, 2, p53 - 1, p53, p53 + 1, p53 + 2, 1 << 62, math.MaxInt64, math.MinInt64, -p53 - 1} {
		add(ref.Int(i))
	}
	for _, f := range []float64{0.0, math.Copysign(0, -1), 1.0, -1.0, 0.5, 2.5, float64(p53), float64(p53 + 2), 9.223372036854775807e18, -9.223372036854775808e18, math.Inf(1), math.Inf(-1), math.NaN(), 1e300} {
		add(ref.Float(f))
	}
	add(ref.Bool(false))
	add(ref.Bool(true))
	add(ref.Nil)
	for _, s := range []string{"", "a", "ab", "b", "\x00", "\xff", "A"} {
		add(ref.Str(s))
	}
	one, two := ref.Int(1), ref.Int(2)
	nine := make([]ref.Value, 9)
	nine2 := make([]ref.Value, 9)
	for i := range nine {
		nine[i] = ref.Int(int64(i))
		nine2[i] = ref.Int(int64(i))
	}
	nine2[8] = ref.Int(99)
	arrs := []ref.Value{ref.Arr(), ref.Arr(one), ref.Arr(two), ref.Arr(one, two), ref.Arr(ref.Float(1.0)), ref.Arr(ref.Arr(one)),
		ref.Arr(nine...), ref.Arr(nine2...), ref.Arr(ref.Float(math.NaN())), ref.Arr(ref.Str("a")), ref.Arr(ref.Int(p53)), ref.Arr(ref.Float(float64(p53))), ref.Arr(ref.Int(p53 + 1))}
	for _, a := range arrs {
		add(a)
	}
	mp := func(kv ...ref.Value) ref.Value {
		var ps []ref.Pair
		for i := 0; i+1 < len(kv); i += 2 {
			ps = append(ps, ref.Pair{K: kv[i], V: kv[i+1]})
		}
		return ref.NewMap(ps...)
	}
	five := mp(ref.Int(1), one, ref.Int(2), one, ref.Int(3), one, ref.Int(4), one, ref.Int(5), one)
	five2 := mp(ref.Int(1), one, ref.Int(2), one, ref.Int(3), one, ref.Int(4), one, ref.Int(5), two)
	maps := []ref.Value{mp(), mp(one, one), mp(one, two), mp(two, one), mp(one, one, two, two), mp(ref.Str("a"), one), five, five2,
		mp(one, mp(one, one)), mp(ref.Float(1.0), one), mp(ref.Arr(one), one)}
	for _, m := range maps {
		add(m)
	}
	// values with a history (defined by c12Prelude): slices sharing the storage of a large array, large-representation
	// maps reduced below the small/large threshold, a literal with repeated keys
	rng := func(a, b int) ref.Value {
		var els []ref.Value
		for i := a; i < b; i++ {
			els = append(els, ref.Int(int64(i)))
		}
		return ref.Value{Kind: ref.KArray, A: els}
	}
	four := mp(ref.Int(1), one, ref.Int(2), one, ref.Int(3), one, ref.Int(4), one)
	u = append(u,
		c12Val{src: "vb12", ref: rng(0, 12)}, c12Val{src: "vb12[0:10]", ref: rng(0, 10)}, c12Val{src: "vb12[0:9]", ref: rng(0, 9)},
		c12Val{src: "vb12[1:11]", ref: rng(1, 11)}, c12Val{src: "vb12[0:0]", ref: ref.Arr()}, c12Val{src: "[0, 1, 2, 3, 4, 5, 6, 7, 8, 9]", ref: rng(0, 10)},
		c12Val{src: "vms", ref: four}, c12Val{src: "{1:1, 2:1, 3:1, 4:1}", ref: four}, c12Val{src: "vme", ref: mp()}, c12Val{src: "vmd", ref: mp(one, ref.Int(6))},
		c12Val{src: "[vms]", ref: ref.Arr(four)}, c12Val{src: "{1: vb12[0:10]}", ref: mp(one, rng(0, 10))},
	)
	// opaque values
	u = append(u,
		c12Val{src: "func(x){x}", opaque: true, eqTag: "idfn"},
		c12Val{src: "(x=>x)", opaque: true, eqTag: "idfn"},
		c12Val{src: "func(x){x+1}", opaque: true, eqTag: "incfn"},
		c12Val{src: "func(a,b){a}", opaque: true, eqTag: "fn2"},
		c12Val{src: "func named(x){x}", opaque: true, eqTag: "named"},
		c12Val{src: "sin", opaque: true, eqTag: "sin"},
		c12Val{src: "max", opaque: true, eqTag: "max"},
		c12Val{src: "quote(1)", opaque: true, eqTag: "q1"},
		c12Val{src: "quote(x+1)", opaque: true, eqTag: "qx1"},
		c12Val{src: "[func(x){x}]", opaque: true, eqTag: "arrfn"},
		c12Val{src: "{1:quote(1)}", opaque: true, eqTag: "mapq"},
	)
	if !quick {
		// thorough: more boundary numbers and containers
		for _, i := range []int64{3, -2, 1 << 31, 1 << 52, p53 - 2, p53 + 3, p53 + 4, -p53, -p53 + 1, -p53 - 2, math.MaxInt64 - 1, math.MinInt64 + 1, 1<<62 + 1} {
			add(ref.Int(i))
		}
		for _, f := range []float64{float64(p53 + 4), float64(p53) - 1, -float64(p53), -float64(p53) - 2, float64(1 << 62), 4611686018427387905.0, 1.5, -0.5, 3.0, 5e-324, -1e300, 9.223372036854774784e18} {
			add(ref.Float(f))
		}
		for _, s := range []string{"a\x00", "aa", "\x7f", "é", "0", "1"} {
			add(ref.Str(s))
		}
		add(ref.Arr(ref.Nil))
		add(ref.Arr(ref.Bool(true), ref.Bool(false)))
		add(ref.Arr(ref.Arr(), ref.Arr()))
		add(ref.Arr(mp(one, one)))
		add(ref.Arr(ref.Float(0.0)))
		add(ref.Arr(ref.Float(math.Copysign(0, -1))))
		add(mp(ref.Nil, ref.Nil))
		add(mp(ref.Bool(true), one, ref.Bool(false), two))
		add(mp(ref.Arr(), ref.Arr()))
		add(mp(ref.Int(p53), one))
		add(mp(ref.Float(float64(p53)), one))
		add(mp(ref.Int(p53+1), one))
		u = append(u,
			c12Val{src: "func(){}", opaque: true, eqTag: "emptyfn"},
			c12Val{src: "(a,b)=>a", opaque: true, eqTag: "fn2"},
			c12Val{src: "cos", opaque: true, eqTag: "cos"},
			c12Val{src: "quote(quote(1))", opaque: true, eqTag: "qq1"},
		)
	}
	return u
}

// c12Prelude defines the variables the derived universe values refer to; it is evaluated first in every state.
const c12Prelude = "vb12 = [0, 1, 2, 3, 4, 5, 6, 7, 8, 9, 10, 11]; vms = {1:1, 2:1, 3:1, 4:1, 5:1}; del(vms[5]); " +
	"vme = {1:1, 2:1, 3:1, 4:1, 5:1}; del(vme[1]); del(vme[2]); del(vme[3]); del(vme[4]); del(vme[5]); vmd = {1:1, 1:2, 1:3, 1:4, 1:5, 1:6}\n"

func sign(x int) int {
	switch {
	case x < 0:
		return -1
	case x > 0:
		return 1
	}
	return 0
}

// safeCmp runs object.Cmp under recover.
func safeCmp(a, b object.Object) (r int, pan string) {
	defer func() {
		if e := recover(); e != nil {
			pan = fmt.Sprint(e)
		}
	}()
	return object.Cmp(a, b), ""
}

func safeEq(a, b object.Object) (r bool, pan string) {
	defer func() {
		if e := recover(); e != nil {
			pan = fmt.Sprint(e)
		}
	}()
	return object.Equals(a, b), ""
}

func c12Objects(u []c12Val) ([]object.Object, string) {
	s := eval.NewState()
	s.Out, s.LogOut = io.Discard, io.Discard
	objs := make([]object.Object, len(u))
	if o, perr := evalSrc(s, c12Prelude); perr != "" || o.Type() == object.ERROR {
		return nil, "prelude: " + perr
	}
	for i, v := range u {
		o, perr := evalSrc(s, v.src)
		if perr != "" {
			return nil, v.src + ": " + perr
		}
		if o.Type() == object.ERROR {
			return nil, v.src + ": " + o.Inspect()
		}
		objs[i] = o
	}
	return objs, ""
}

func runC12(c *core.Ctx) {
	u := c12Universe(c.Quick())
	n := len(u)
	objs, e := c12Objects(u)
	if e != "" {
		c.Report(&core.Viol{Class: "universe-build", Detail: e, Case: core.Case{Kind: "universe"}})
		return
	}
	// rebuilt copies (a value and a copy of itself obtained by rebuilding)
	objs2, _ := c12Objects(u)
	cmpM := make([][]int8, n)
	eqM := make([][]bool, n)
	panM := make([][]bool, n)
	mkCase := func(kind string, idx ...int) core.Case {
		parts := make([]string, len(idx))
		for i, x := range idx {
			parts[i] = u[x].src
		}
		return core.Case{Kind: kind, Data: strings.Join(parts, " ;; ")}
	}
	// ---- pairs at the API
	for i := 0; i < n; i++ {
		cmpM[i] = make([]int8, n)
		eqM[i] = make([]bool, n)
		panM[i] = make([]bool, n)
		for j := 0; j < n; j++ {
			r, p1 := safeCmp(objs[i], objs[j])
			eq, p2 := safeEq(objs[i], objs[j])
			cmpM[i][j] = int8(sign(r))
			eqM[i][j] = eq
			panM[i][j] = p1 != "" || p2 != ""
			if !c.MineNoDedup("api-pair", fmt.Sprintf("%d,%d", i, j)) {
				continue
			}
			cs := mkCase("api-pair", i, j)
			v := c.Run(func() *core.Viol {
				r, p1 := safeCmp(objs[i], objs[j])
				eq, p2 := safeEq(objs[i], objs[j])
				if p1 != "" || p2 != "" {
					return &core.Viol{Class: "panic: " + firstLine(p1+p2), Detail: "comparing " + u[i].src + " with " + u[j].src + ": " + p1 + p2, Case: cs}
				}
				r2, _ := safeCmp(objs[j], objs[i])
				eq2, _ := safeEq(objs[j], objs[i])
				if sign(r) != -sign(r2) {
					return &core.Viol{Class: "antisymmetry", Detail: fmt.Sprintf("Cmp(a,b)=%d Cmp(b,a)=%d", r, r2), Case: cs}
				}
				if eq != eq2 {
					return &core.Viol{Class: "eq-symmetry", Detail: fmt.Sprintf("Equals(a,b)=%v Equals(b,a)=%v", eq, eq2), Case: cs}
				}
				if eq && r != 0 {
					return &core.Viol{Class: "eq-implies-order-equiv", Detail: fmt.Sprintf("Equals true but Cmp=%d", r), Case: cs}
				}
				if i == j {
					if r != 0 {
						return &core.Viol{Class: "reflexivity", Detail: fmt.Sprintf("Cmp(a,a)=%d", r), Case: cs}
					}
					if !eq {
						return &core.Viol{Class: "eq-reflexivity", Detail: "Equals(a,a)=false", Case: cs}
					}
					// a value and a copy of itself obtained by rebuilding
					rc, p := safeCmp(objs[i], objs2[i])
					eqc, pp := safeEq(objs[i], objs2[i])
					if p+pp == "" && (rc != 0 || !eqc) {
						return &core.Viol{Class: "copy-not-equal", Detail: fmt.Sprintf("value vs rebuilt copy: Cmp=%d Equals=%v", rc, eqc), Case: cs}
					}
				}
				if !u[i].opaque && !u[j].opaque {
					want := ref.Cmp(u[i].ref, u[j].ref)
					if sign(r) != want {
						return &core.Viol{Class: "order-vs-reference", Detail: fmt.Sprintf("Cmp=%d reference %d", sign(r), want), Case: cs}
					}
					if eq != ref.Equal(u[i].ref, u[j].ref) {
						return &core.Viol{Class: "eq-vs-reference", Detail: fmt.Sprintf("Equals=%v reference %v", eq, ref.Equal(u[i].ref, u[j].ref)), Case: cs}
					}
				}
				if u[i].opaque && u[j].opaque && u[i].eqTag == u[j].eqTag && (r != 0 || !eq) {
					return &core.Viol{Class: "same-text-not-equal", Detail: fmt.Sprintf("Cmp=%d Equals=%v", r, eq), Case: cs}
				}
				return nil
			})
			out := fmt.Sprintf("cmp=%d eq=%v", sign(r), eq)
			if v != nil {
				out = v.Class
			}
			c.CountNT("pair: "+u[i].src+" ? "+u[j].src, out, true)
		}
	}
	// ---- triples at the API (transitivity of <=, of order-equivalence and of ==)
	for i := 0; i < n; i++ {
		if c.Expired() {
			break
		}
		for j := 0; j < n; j++ {
			if panM[i][j] {
				continue
			}
			for k := 0; k < n; k++ {
				if panM[j][k] || panM[i][k] {
					continue
				}
				if !c.MineNoDedup("api-triple", fmt.Sprintf("%d,%d,%d", i, j, k)) {
					continue
				}
				bad := ""
				if cmpM[i][j] <= 0 && cmpM[j][k] <= 0 && cmpM[i][k] > 0 {
					bad = "transitivity"
				} else if eqM[i][j] && eqM[j][k] && !eqM[i][k] {
					bad = "eq-transitivity"
				}
				out := "ok"
				if bad != "" {
					out = bad
					c.Report(&core.Viol{Class: bad, Detail: fmt.Sprintf("a<=b (%d), b<=c (%d) but Cmp(a,c)=%d; eq %v %v %v", cmpM[i][j], cmpM[j][k], cmpM[i][k], eqM[i][j], eqM[j][k], eqM[i][k]), Case: mkCase("api-triple", i, j, k)})
				}
				c.CountNT("triple: "+u[i].src+" , "+u[j].src+" , "+u[k].src, out, true)
			}
		}
	}
	// ---- pairs through source, in three contexts (plain, parameters = registers for ints, outer variables = references)
	for i := 0; i < n; i++ {
		if c.Expired() {
			break
		}
		for j := 0; j < n; j++ {
			if !c.MineNoDedup("src-pair", fmt.Sprintf("%d,%d", i, j)) {
				continue
			}
			cs := mkCase("src-pair", i, j)
			v := c.Run(func() *core.Viol { return c12SrcPair(u[i], u[j], cs) })
			out := "src-ok"
			if v != nil {
				out = v.Class
			}
			c.CountNT("src: "+u[i].src+" ? "+u[j].src, out, true)
		}
	}
	// ---- map-key behaviour of every 3-subset of non-opaque values (iteration order consistent with the ordering)
	var plain []int
	for i, v := range u {
		if !v.opaque {
			plain = append(plain, i)
		}
	}
	step := 1

	for a := 0; a < len(plain); a += step {
		if c.Expired() {
			break
		}
		for b := a + 1; b < len(plain); b += step {
			for d := b + 1; d < len(plain); d += step {
				i, j, k := plain[a], plain[b], plain[d]
				if !c.MineNoDedup("src-keys", fmt.Sprintf("%d,%d,%d", i, j, k)) {
					continue
				}
				cs := mkCase("src-keys", i, j, k)
				v := c.Run(func() *core.Viol { return c12Keys(u[i], u[j], u[k], cs) })
				out := "keys-ok"
				if v != nil {
					out = v.Class
				}
				c.CountNT("keys: {"+u[i].src+","+u[j].src+","+u[k].src+"}", out, true)
			}
		}
	}
	c.P.Bound = fmt.Sprintf("universe of %d values: all pairs and all triples at the API, all pairs through source in 3 contexts, all 3-subsets (step %d) as map keys", n, step)
}

func firstLine(s string) string {
	if i := strings.IndexByte(s, '\n'); i >= 0 {
		s = s[:i]
	}
	if len(s) > 80 {
		s = s[:80]
	}
	return s
}

func c12EvalBools(src string) ([]bool, string) {
	s := eval.NewState()
	s.Out, s.LogOut = io.Discard, io.Discard
	o, perr := evalSrc(s, c12Prelude+src)
	if perr != "" {
		return nil, perr
	}
	if o.Type() == object.ERROR {
		return nil, o.Inspect()
	}
	els := object.Elements(o)
	out := make([]bool, len(els))
	for i, e := range els {
		b, ok := e.(object.Boolean)
		if !ok {
			return nil, "non-boolean result " + e.Inspect()
		}
		out[i] = b.Value
	}
	return out, ""
}

func c12SrcPair(x, y c12Val, cs core.Case) *core.Viol {
	exprs := "[p<q, p<=q, p>q, p>=q, p==q, p!=q, q<p, q<=p, q>p, q>=p, q==p]"
	progs := map[string]string{
		"plain": strings.NewReplacer("p", "("+x.src+")", "q", "("+y.src+")").Replace(exprs),
		"param": "func(p,q){" + exprs + "}(" + x.src + "," + y.src + ")",
		"outer": "p=" + x.src + "; q=" + y.src + "; func(){" + exprs + "}()",
	}
	for _, ctx := range []string{"plain", "param", "outer"} {
		r, e := c12EvalBools(progs[ctx])
		if e != "" {
			cl := "src-error"
			if strings.Contains(e, "panic") {
				cl = "src-panic: " + firstLine(e)
			}
			return &core.Viol{Class: cl, Detail: ctx + ": " + e + " in " + progs[ctx], Case: cs}
		}
		lt, le, gt, ge, eq, ne, qlt, qle, qgt, qge, qeq := r[0], r[1], r[2], r[3], r[4], r[5], r[6], r[7], r[8], r[9], r[10]
		bad := ""
		switch {
		case lt != qgt:
			bad = "a<b iff b>a"
		case gt != qlt:
			bad = "a>b iff b<a"
		case le != !gt:
			bad = "a<=b iff not a>b"
		case ge != !lt:
			bad = "a>=b iff not a<b"
		case le != qge:
			bad = "a<=b iff b>=a"
		case ge != qle:
			bad = "a>=b iff b<=a"
		case eq == ne:
			bad = "!= is not =="
		case eq != qeq:
			bad = "== symmetric"
		case eq && (lt || gt):
			bad = "== implies order-equivalence"
		}
		if bad != "" {
			return &core.Viol{Class: "operator-consistency: " + bad, Detail: fmt.Sprintf("%s: %v for %s", ctx, r, progs[ctx]), Case: cs}
		}
		if !x.opaque && !y.opaque {
			w := ref.Cmp(x.ref, y.ref)
			if lt != (w < 0) || gt != (w > 0) || eq != ref.Equal(x.ref, y.ref) {
				return &core.Viol{Class: "operator-vs-reference", Detail: fmt.Sprintf("%s: lt=%v gt=%v eq=%v reference cmp=%d eq=%v for %s", ctx, lt, gt, eq, w, ref.Equal(x.ref, y.ref), progs[ctx]), Case: cs}
			}
		}
	}
	// (a trailing array argument of a variadic function is spread by the documented calling convention, so
	// min/max are only meaningful here when the last argument is not an array)
	if !x.opaque && !y.opaque && y.ref.Kind != ref.KArray {
		// min / max agree with the ordering
		s := eval.NewState()
		s.Out, s.LogOut = io.Discard, io.Discard
		o, perr := evalSrc(s, c12Prelude+"[min("+x.src+","+y.src+"), max("+x.src+","+y.src+")]")
		if perr != "" || o.Type() == object.ERROR {
			return &core.Viol{Class: "minmax-error", Detail: perr + o.Inspect(), Case: cs}
		}
		els := object.Elements(o)
		w := ref.Cmp(x.ref, y.ref)
		wmin, wmax := x.ref, x.ref
		if w > 0 {
			wmin = y.ref
		}
		if w < 0 {
			wmax = y.ref
		}
		// for order-equivalent values either is acceptable
		okMin := obs.DumpValue(els[0]) == ref.Dump(wmin) || (w == 0 && obs.DumpValue(els[0]) == ref.Dump(y.ref))
		okMax := obs.DumpValue(els[1]) == ref.Dump(wmax) || (w == 0 && obs.DumpValue(els[1]) == ref.Dump(y.ref))
		if !okMin || !okMax {
			return &core.Viol{Class: "minmax-vs-order", Detail: fmt.Sprintf("min/max(%s,%s)=%s reference %s,%s", x.src, y.src, o.Inspect(), ref.Inspect(wmin), ref.Inspect(wmax)), Case: cs}
		}
	}
	return nil
}

func c12Keys(x, y, z c12Val, cs core.Case) *core.Viol {
	vals := []c12Val{x, y, z}
	// all 6 insertion orders give the same map, iterated in reference order, and every key is found
	var first string
	perms := [][3]int{{0, 1, 2}, {0, 2, 1}, {1, 0, 2}, {1, 2, 0}, {2, 0, 1}, {2, 1, 0}}
	for pi, p := range perms {
		for _, padded := range []bool{false, true} {
			mod := ref.NewMap()
			var parts []string
			if padded {
				// three more keys make it a large-representation map (other key comparison and storage code);
				// built by literal for the even permutations and by index assignment for the odd ones
				parts = append(parts, `"pad1":7`, `"pad2":8`, `"pad3":9`)
				mod = ref.MapSet(ref.MapSet(ref.MapSet(mod, ref.Str("pad1"), ref.Int(7)), ref.Str("pad2"), ref.Int(8)), ref.Str("pad3"), ref.Int(9))
			}
			var assigns []string
			for pos, idx := range p {
				_ = pos
				if padded && pi%2 == 1 {
					assigns = append(assigns, "m["+vals[idx].src+"] = "+fmt.Sprint(idx))
					continue
				}
				parts = append(parts, vals[idx].src+":"+fmt.Sprint(idx))
			}
			src := c12Prelude + "m = {" + strings.Join(parts, ", ") + "}; " + strings.Join(append(assigns, ""), "; ") + "[m, m[" + x.src + "], m[" + y.src + "], m[" + z.src + "], len(m)]"
			s := eval.NewState()
			s.Out, s.LogOut = io.Discard, io.Discard
			o, perr := evalSrc(s, src)
			if perr != "" || o.Type() == object.ERROR {
				return &core.Viol{Class: "keys-error", Detail: perr + o.Inspect() + " in " + src, Case: cs}
			}
			for _, idx := range p {
				mod = ref.MapSet(mod, vals[idx].ref, ref.Int(int64(idx)))
			}
			els := object.Elements(o)
			// iteration order must follow the ordering (keys strictly increasing by the reference)
			got := obs.DumpValue(els[0])
			// compare key sequence and values with the model (the stored representative of equivalent keys is the first inserted)
			if got != ref.Dump(mod) {
				return &core.Viol{Class: "keys-vs-reference", Detail: fmt.Sprintf("%s gave %s reference %s", src, got, ref.Dump(mod)), Case: cs}
			}
			for q, v := range vals {
				want, _ := ref.MapGet(mod, v.ref)
				if obs.DumpValue(els[1+q]) != ref.Dump(want) {
					return &core.Viol{Class: "keys-lookup", Detail: fmt.Sprintf("%s: lookup of %s gave %s reference %s", src, v.src, obs.DumpValue(els[1+q]), ref.Dump(want)), Case: cs}
				}
			}
			if obs.DumpValue(els[4]) != fmt.Sprintf("I:%d", len(mod.M)) {
				return &core.Viol{Class: "keys-len", Detail: src, Case: cs}
			}
			_ = first
		}
	}
	return nil
}

func init() {
	core.Register(&core.Check{
		ID:       "C12",
		Level:    "exploration",
		Rule:     "curated universe of ~75 values (quick ~70) built from source literals: integers around 2^53 and both int64 extremes next to the same magnitudes as floats, -0, NaN, infinities, bools, nil, strings incl. NUL/0xFF, arrays and maps (empty, equal length, prefixes, nested, large, containing NaN / big ints), functions (same and different text, named), extension functions, quote objects. All pairs and all triples at the API (Cmp, Equals: reflexive, antisymmetric, transitive, == an equivalence implying order-equivalence, copy equality, agreement with the reference ordering); all pairs through source for < <= > >= == != in three contexts (literals, parameters i.e. registers, outer variables i.e. references), min/max; every 3-subset as map keys in all 6 insertion orders, alone (small map) and next to three padding keys (large map, built by literal or by index assignment). The universe includes values with a history: slices sharing the storage of a 12-element array, large maps reduced under the small/large threshold or emptied, a literal with repeated keys. Non-trivial = every case (each compares at least two values).",
		Assume:   []string{"reference ordering of DESIGN.md §5 (numbers compared exactly across int/float)", "functions/extensions/quotes are checked against the axioms only"},
		QuickCap: 100 * time.Second, ThoroughCap: 15 * time.Minute,
		Run: runC12,
		Replay: func(c *core.Ctx, cs core.Case) *core.Viol {
			u := c12Universe(false)
			find := func(src string) *c12Val {
				for i := range u {
					if u[i].src == src {
						return &u[i]
					}
				}
				return nil
			}
			parts := strings.Split(cs.Data, " ;; ")
			var vs []*c12Val
			for _, p := range parts {
				v := find(p)
				if v == nil {
					return &core.Viol{Class: "bad-replay", Detail: p, Case: cs}
				}
				vs = append(vs, v)
			}
			switch cs.Kind {
			case "src-pair":
				return c12SrcPair(*vs[0], *vs[1], cs)
			case "src-keys":
				return c12Keys(*vs[0], *vs[1], *vs[2], cs)
			default:
				objs, _ := c12Objects([]c12Val{*vs[0], *vs[1], *vs[len(vs)-1]})
				a, b, d := objs[0], objs[1], objs[2]
				r1, p1 := safeCmp(a, b)
				r2, p2 := safeCmp(b, d)
				r3, p3 := safeCmp(a, d)
				r4, _ := safeCmp(b, a)
				if p1+p2+p3 != "" {
					return &core.Viol{Class: "panic: " + firstLine(p1+p2+p3), Case: cs}
				}
				if len(vs) == 2 {
					if sign(r1) != -sign(r4) {
						return &core.Viol{Class: "antisymmetry", Case: cs}
					}
					if !vs[0].opaque && !vs[1].opaque && sign(r1) != ref.Cmp(vs[0].ref, vs[1].ref) {
						return &core.Viol{Class: "order-vs-reference", Detail: fmt.Sprintf("Cmp=%d reference %d", r1, ref.Cmp(vs[0].ref, vs[1].ref)), Case: cs}
					}
					return nil
				}
				if r1 <= 0 && r2 <= 0 && r3 > 0 {
					return &core.Viol{Class: "transitivity", Detail: fmt.Sprintf("%d %d %d", r1, r2, r3), Case: cs}
				}
				return nil
			}
		},
	})
}
