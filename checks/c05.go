package checks

import (
	"fmt"
	"fortio.org/log"
	"strings"
	"time"

	"verif/internal/core"
)

// C05 — integer registers are unobservable: every program/history is run with registers on and off
// (differential), each under cache on and cache off.

func c05Diff(kind, src string, hist []string) *core.Viol {
	for _, cacheOff := range []bool{false, true} {
		var recs [2][]stepRec
		for k, noReg := range []bool{false, true} {
			x := newSess(sessCfg{noReg: noReg, cacheOff: cacheOff})
			if hist == nil {
				recs[k] = []stepRec{x.step(src)}
			} else {
				for _, h := range hist {
					recs[k] = append(recs[k], x.step(h))
				}
			}
		}
		for i := range recs[0] {
			a, b := recs[0][i], recs[1][i]
			if !sameRec(a, b) {
				// class = outcome class of the deviating side (registers on); when that side succeeds, how the plain side ended
				cl := "reg=" + outcomeClass(a)
				if outcomeClass(a) == "ok" {
					cl = "reg=ok|noreg=" + outcomeClass(b)
					if outcomeClass(b) == "ok" {
						cl = "output-differs"
					}
				}
				text := src
				if hist != nil {
					text = strings.Join(hist, " ;; ")
				}
				step := ""
				if hist != nil {
					step = fmt.Sprintf(" at input %d (%q)", i, hist[i])
				}
				return &core.Viol{Class: cl, Detail: fmt.Sprintf("cacheOff=%v%s: registers on: %s ; registers off: %s", cacheOff, step, a, b),
					Case: core.Case{Kind: kind, Data: text}, FindText: text}
			}
		}
	}
	return nil
}

var c05ArgKinds = map[byte]string{'i': "3", 'f': "1.5", 's': `"s"`, 'a': "[1,2]"}

func c05ParamNames(k int) []string {
	names := []string{"p", "q", "r"}
	for i := 4; i <= k; i++ {
		names = append(names, fmt.Sprintf("p%d", i))
	}
	return names[:k]
}

func c05BodyAlphabet(p, q string) []string {
	return []string{
		p, p + " = " + p + " + 1", p + ` = "s"`, p + " = 1.5", p + "++", p + "--", "++" + p, "del(" + p + ")",
		"for " + p + " = 2 { }", "g = func() { " + p + " }; g()", "g = func() { " + p + " = 5 }; g()", "[" + p + "]", "{" + p + ": " + p + "}",
		"h(" + p + ")", "return " + p, "println(" + p + ")", q + " = " + p, p + " = " + q, "for i = 2 { " + p + " = " + p + " + i }",
		"if " + p + " == 3 { " + p + " = 2 }", p + " := 4", "x = " + p + "; x", "for " + p + " { 1 }", "-" + p, p + " * 2.5", p + " == " + q, "len(" + p + ")",
		"g = func(" + p + ") { " + p + " + 1 }; g(1)", "(" + p + " => " + p + " * 2)(5)", "mm = {\"" + p + "\": 7}; mm." + p, "mm = {}; mm[" + p + "] = " + p + "; mm", "aa = [0, 0, 0, 0]; aa[" + p + "] = " + p + "; aa",
		"gv = " + p, p + " = " + p + " * 2", "gw = [" + p + "]", "(for i = 2 { " + p + " }) + (for j = 2 { j })", "rdg(" + p + ")", "eval(\"" + p + "\")", "[" + p + ", " + p + " + 1][" + p + " - " + p + "]", "sprintf(\"%v\", " + p + ")", "min(" + p + ", 2)", "\"s\" * " + p,
		// the parameter stored in containers that are read after it changes
		"mm = {}; mm[" + p + "] = " + p + "; gw = mm", "gw = [" + p + ", {" + p + ": " + p + "}]", "aa = [0, 0, 0, 0]; aa[1] = " + p + "; gw = aa",
		// evaluation order with side effects on the parameter; the parameter as a list-loop variable; called; a closure
		// over it read inside a counted loop that reuses its name
		"gw = " + p + " + ++" + p, "gw = " + p + " + (" + p + " = 5)", "gw = {" + p + ": ++" + p + "}", "gw = [" + p + ", ++" + p + ", " + p + "]", "gw = " + p + " * 10 + (" + p + " = " + p + " + 1)", "gw = h(" + p + ") - h(++" + p + ")", "for " + p + " = [5, 6] { println(" + p + ") }", p + "()",
		"g = func() { " + p + " }; for " + p + " = 2 { println(g()) }",
		"aa = [1, 2, 3, 4, 5, 6, 7]; gw = aa[" + p + ":++" + p + "]", "gw = quote(" + p + " + 1)", "gw = quote(unquote(" + p + ") + 1)", "for i = 2 { gw = quote(unquote(i) + unquote(" + p + ")) }", "for i = 2 { println(quote(i), quote(" + p + ")) }",
		// the value of a loop expression is the last value of its body
		"gw = for i = 4 { if i == 2 { break }; i }", "gw = for j = 2 { if j == 1 { " + p + " = 50; continue }; " + p + " }", "gw = for j = 3 { if j == 2 { " + p + "++; break }; " + p + " }", "gw = for " + p + " = 3 { " + p + " }", "gw = [for i = 0:3 { i }, for j = 2 { " + p + " }]", "gw = for i = 3 { " + p + " = " + p + " + 1; " + p + " - 1 }",
		// the parameter used as if it were a container
		p + "[0] = 1", p + ".k = 1", p + "[0]", "del(" + p + "[0])", p + "[0:1]", p + "[0]++",
	}
}

func c05FnPrograms(thorough bool, f func(fam, src string) bool) bool {
	// argument kind patterns
	var pats []string
	var rec func(cur string, k int)
	rec = func(cur string, k int) {
		pats = append(pats, cur)
		if len(cur) == k {
			return
		}
	}
	_ = rec
	for k := 0; k <= 3; k++ {
		enumStrings([]byte("ifsa"), k, func(b []byte) bool {
			if len(b) == k {
				pats = append(pats, string(b))
			}
			return true
		})
	}
	for k := 4; k <= 12; k++ {
		pats = append(pats, strings.Repeat("i", k))
		alt := make([]byte, k)
		for i := range alt {
			alt[i] = "is"[i%2]
		}
		pats = append(pats, string(alt))
		alt2 := make([]byte, k)
		for i := range alt2 {
			alt2[i] = "fi"[i%2]
		}
		pats = append(pats, string(alt2))
	}
	// repeated parameter names (rejected by the parser: the same verdict in both configurations)
	for _, src := range []string{"func f(p, p) { p }\nprintln(f(1, 2))", "f = (p, p) => p + 1\nprintln(f(1, 2))", "func f(p, q, p) { [p, q] }\nprintln(f(1, 2, 3))",
		"f = func(p, p) { p = p + 1; p }\nprintln(f(1, 2.5))",
		// the same loop node entered again in the same frame with another number of registers in use; a loop spliced twice by a macro
		"for k = [2, [7, 8]] { for a = k { for i = 3 { println(k, i) } } }", "func f() { for k = [1, [5], 2, [6, 6]] { for a = k { for i = 2 { for j = 2 { println(k, a, i, j) } } } } }\nf()",
		"m = macro(x) { quote(if true { unquote(x); for q = 2 { unquote(x) } }) }\nm(for i = 3 { println(i) })", "for k = [3, \"ab\", 2] { for a = k { for i = 2 { println(k, a, i) } } }",
		// a function left by return from inside a counted loop while something still looks at the frame
		"func mk() { g = func() { i }; for i = 5 { if i == 3 { return g } } }\nprintln(mk()())", "func h() { x = for i = 5 { if i == 3 { return 9 } }; [x, i] }\nprintln(h())",
		"func h2() { eval(\"for i = 5 { if i == 2 { return 1 } }\"); i }\nprintln(catch(h2()))", "func mk2() { g = () => [i, j]; for i = 3 { for j = 3 { if j == 1 { return g } } } }\nprintln(catch(mk2()()))",
		// names of extension namespaces and of their members as integer parameters and loop variables, the extension used in the same body
		"func f(time) { [time, time.now() > 0] }\nprintln(f(3))", "for image = 2 { image.new(\"rimg\", 2, 2); println(image) }", "func f(now) { [now, time.now() > now] }\nprintln(f(3))",
		"func f(new, set) { image.new(\"rim2\", new, set); image.set(\"rim2\", 0, 0, [1, 2, 3]); [new, set] }\nprintln(f(2, 3))", "for parse = 2 { println(parse, time.parse(\"2024-01-02\") > 0) }",
		"func f(info) { info }\nprintln(len(f(3)))", "func f(self) { self }\nprintln(f(3))", "for info = 2 { println(len(info)) }", "func g9() { for self = 2 { println(self) } }\ng9()", "for math = 2 { println(math, sqrt(4)) }", "func f(time) { time = time + 1; time.now() > time }\nprintln(f(1))",
		// names of extension functions as integer parameters and loop variables
		"func f(max) { max }\nprintln(f(3))", "func f(a, len2, min) { [a, min] }\nprintln(f(1, 2, 3))", "for max = 3 { println(max) }", "func f() { for sin = 2 { println(sin) } }\nf()", "f = min => min + 1\nprintln(f(2))", "func f(p, .., p) { p }\nprintln(f(1, 2))", "m = macro(p, p) { quote(unquote(p)) }\nprintln(m(1, 2))"} {
		if !f("fn", src) {
			return false
		}
	}
	for pi, pat := range pats {
		k := len(pat)
		names := c05ParamNames(k)
		if k >= 1 && k <= 2 && pi%2 == 1 {
			names = []string{"N", "Q"}[:k] // upper-case (constant style) parameter names
		}
		args := make([]string, k)
		for i := range args {
			args[i] = c05ArgKinds[pat[i]]
		}
		call := "f(" + strings.Join(args, ", ") + ")"
		mk := func(body string) string {
			tail := "[" + strings.Join(append(append([]string{}, names...), "gv", "catch(gw)"), ", ") + "]"
			return "h = func(x) { x }\ngv = 100\nrdg = func(x) { gv + x }\nfunc f(" + strings.Join(names, ", ") + ") { " + body + tail + " }\nprintln(" + call + ")\nprintln(" + call + ")\nprintln(gv, catch(gw))"
		}
		if !f("fn", mk("")) {
			return false
		}
		if k == 0 {
			continue
		}
		alpha := c05BodyAlphabet(names[0], names[k-1])
		for _, s1 := range alpha {
			if !f("fn", mk(s1+"; ")) {
				return false
			}
			if k > 4 && k != 8 && k != 9 {
				continue // two-statement bodies for k<=4 and around the 8-register limit
			}
			for _, s2 := range alpha {
				if !f("fn", mk(s1+"; "+s2+"; ")) {
					return false
				}
				if thorough && k <= 2 && (pat == "i" || pat == "ii" || pat == "is" || pat == "f") {
					for _, s3 := range alpha {
						if !f("fn3", mk(s1+"; "+s2+"; "+s3+"; ")) {
							return false
						}
					}
				}
			}
		}
	}
	return true
}

var c05Exits = []string{"none", "break", "continue", "return", "error", "funclit", "assign", "incr", "condbreak", "condcontinue", "condreturn", "storemap", "storearr", "storelit", "evalerr"}

// c05Loop renders nested counted loops. names[i]=="" means the count-only form `for n {}`.
func c05Loop(names []string, forms []int, exitLevel int, exit string, exitFirst bool) string {
	var sb strings.Builder
	d := len(names)
	var vars []string
	for _, n := range names {
		if n != "" {
			seen := false
			for _, v := range vars {
				if v == n {
					seen = true
				}
			}
			if !seen {
				vars = append(vars, n)
			}
		}
	}
	exitStmt := func(v string) string {
		cv := v
		if cv == "" {
			cv = "c"
		}
		switch exit {
		case "break":
			return "break"
		case "continue":
			return "continue"
		case "return":
			return "return 7"
		case "error":
			return `error("x")`
		case "funclit":
			return "fl = func() { 1 }"
		case "assign":
			if v == "" {
				return "c = 5"
			}
			return v + " = 5"
		case "incr":
			if v == "" {
				return "c++"
			}
			return v + "++"
		case "evalerr": // a failing eval() caught inside the loop (it must not disturb the registers of the running loops)
			return "catch(eval(\"no_such_name_\" + str(" + cv + ")))"
		case "storemap": // the loop variable stored as key and value of a container that outlives the iteration
			return "stm[" + cv + "] = " + cv
		case "storearr":
			return "sta = sta + [" + cv + "]; sta[0] = " + cv
		case "storelit":
			return "stl = [" + cv + ", {" + cv + ": [" + cv + "]}, stl]"
		case "condbreak":
			return "if " + cv + " == 1 { break }"
		case "condcontinue":
			return "if " + cv + " == 1 { continue }"
		case "condreturn":
			return "if " + cv + " == 1 { return 8 }"
		}
		return ""
	}
	for i := 0; i < d; i++ {
		sb.WriteString(strings.Repeat(" ", i))
		switch {
		case names[i] == "":
			sb.WriteString("for 2 {\n")
		case forms[i] == 1:
			sb.WriteString("for " + names[i] + " = 1:3 {\n")
		case forms[i] == 2: // the declaring forms
			sb.WriteString("for " + names[i] + " := 2 {\n")
		case forms[i] == 3:
			sb.WriteString("for " + names[i] + " := 1:3 {\n")
		default:
			sb.WriteString("for " + names[i] + " = 2 {\n")
		}
		sb.WriteString(strings.Repeat(" ", i+1) + "c = c + 1\n")
		if i == exitLevel && exitFirst && exit != "none" {
			sb.WriteString(strings.Repeat(" ", i+1) + exitStmt(names[i]) + "\n")
		}
	}
	sb.WriteString(strings.Repeat(" ", d) + "println(c")
	for _, v := range vars {
		sb.WriteString(", " + v)
	}
	sb.WriteString(")\n")
	for i := d - 1; i >= 0; i-- {
		if i == exitLevel && !exitFirst && exit != "none" {
			sb.WriteString(strings.Repeat(" ", i+1) + exitStmt(names[i]) + "\n")
		}
		sb.WriteString(strings.Repeat(" ", i) + "}\n")
	}
	return sb.String()
}

func c05LoopPrograms(thorough bool, f func(fam, src string) bool) bool {
	maxFull := 3
	if thorough {
		maxFull = 4
	}
	nameChoices := []string{"i", "j", "g", "p", ""}
	wrap := func(loops string, vars []string, inFunc bool) string {
		var after strings.Builder
		after.WriteString("println(\"after\", c")
		for _, v := range vars {
			after.WriteString(", catch(" + v + ")")
		}
		after.WriteString(", stm, sta, stl)")
		if inFunc {
			return "stm = {}\nsta = [0]\nstl = 0\nc = 0\ng = 10\nfunc w(p) {\n" + loops + after.String() + "\n}\nprintln(w(5))\n" + after.String() + "\nfor k = 2 { println(k) }"
		}
		return "stm = {}\nsta = [0]\nstl = 0\nc = 0\ng = 10\np = 20\n" + loops + after.String() + "\nfor k = 2 { println(k) }"
	}
	for d := 1; d <= maxFull; d++ {
		ok := enumTuples(len(nameChoices), d, func(idx []int) bool {
			if len(idx) != d {
				return true
			}
			names := make([]string, d)
			for i, x := range idx {
				names[i] = nameChoices[x]
			}
			// forms: all-int-count, and range form at each single level
			formSets := [][]int{make([]int, d)}
			for l := 0; l < d; l++ {
				fs := make([]int, d)
				fs[l] = 1
				formSets = append(formSets, fs)
				if d <= 2 { // the declaring forms (:=) at each single level of the shallower nests
					for _, f := range []int{2, 3} {
						fs2 := make([]int, d)
						fs2[l] = f
						formSets = append(formSets, fs2)
					}
				}
			}
			for _, forms := range formSets {
				for lvl := 0; lvl < d; lvl++ {
					for _, ex := range c05Exits {
						if ex == "none" && lvl > 0 {
							continue
						}
						for _, first := range []bool{false, true} {
							if ex == "none" && first {
								continue
							}
							loops := c05Loop(names, forms, lvl, ex, first)
							vars := []string{"i", "j", "g", "p"} // (g is a global; p a global or the function's parameter)
							for _, inFunc := range []bool{false, true} {
								if !f("loop", wrap(loops, vars, inFunc)) {
									return false
								}
							}
						}
					}
				}
			}
			return true
		})
		if !ok {
			return false
		}
	}
	// depth 4..10: distinct names, and one repeated name; exits at innermost and outermost level
	for d := 4; d <= 10; d++ {
		for _, repeat := range []bool{false, true} {
			names := make([]string, d)
			for i := range names {
				names[i] = fmt.Sprintf("v%d", i)
			}
			if repeat {
				names[d-1] = "v0"
			}
			forms := make([]int, d)
			for _, lvl := range []int{0, d - 1} {
				for _, ex := range c05Exits {
					loops := c05Loop(names, forms, lvl, ex, false)
					for _, inFunc := range []bool{false, true} {
						if !f("deep", wrap(loops, []string{"v0", names[d-1]}, inFunc)) {
							return false
						}
					}
				}
			}
		}
	}
	return true
}

var c05HistInputs = []string{
	"for i = 3 { println(i) }",
	"for i = 3 { if i == 1 { break } }",
	"for i = 3 { if i == 1 { continue }; println(i) }",
	"func r() { for i = 3 { if i == 1 { return i } } }; println(r())",
	`for i = 3 { if i == 1 { error("x") } }`,
	"for i = 3 { fl = func() { 1 } }",
	"for 3 { 1 }",
	"for i = 0:3 { for j = 2 { if j == 1 { break } } }",
}

var c05Probe = []string{"for k = 3 { println(k) }", "func pf(a, b) { a + b }; println(pf(1, 2))", "println(catch(i), catch(j), catch(k))"}

func c05Histories(thorough bool, f func(fam string, hist []string) bool) bool {
	n := len(c05HistInputs)
	hl := 3
	if thorough {
		hl = 4
	}
	ok := enumTuples(n, hl, func(idx []int) bool {
		if len(idx) == 0 {
			return true
		}
		var h []string
		for _, x := range idx {
			h = append(h, c05HistInputs[x])
		}
		h = append(h, c05Probe...)
		return f("hist", h)
	})
	if !ok {
		return false
	}
	for _, in := range c05HistInputs {
		for m := 4; m <= 20; m++ {
			var h []string
			for i := 0; i < m; i++ {
				h = append(h, in)
			}
			h = append(h, c05Probe...)
			if !f("hist-repeat", h) {
				return false
			}
		}
	}
	return true
}

// c05NestingBoundary: the depth at which the evaluator gives up (max depth / nesting) must not depend on whether the
// innermost names are registers: recursion depths in a window around the first failing one, under 0..3 wrappers.
func c05NestingBoundary(c *core.Ctx, do func(fam, src string, hist []string) bool) string {
	prog := func(n, wrappers int) string {
		return "func f(n) { if n <= 0 { return n }; first([f(n - 1)]) }\nprintln(" + strings.Repeat("-(", wrappers) + "f(" + fmt.Sprint(n) + ")" + strings.Repeat(")", wrappers) + ")"
	}
	fails := func(n int) bool {
		c.Current(core.Case{Kind: "nesting", Data: prog(n, 0)}) // (progress mark: each of these runs takes a second or so)
		r := runProgram(sessCfg{noReg: true}, prog(n, 0))
		return r.panicked || len(r.errs) > 0
	}
	lo, hi := 1000, 400000
	if !fails(hi) {
		return ""
	}
	for lo+1 < hi {
		mid := (lo + hi) / 2
		if fails(mid) {
			hi = mid
		} else {
			lo = mid
		}
	}
	w := 2
	if !c.Quick() {
		w = 6
	}
	for n := hi - w; n <= hi+w; n++ {
		for wr := 0; wr <= 3; wr++ {
			if !do("nesting", prog(n, wr), nil) {
				return ""
			}
		}
	}
	return fmt.Sprintf("recursion depths %d..%d (around the first depth the evaluator refuses, %d) under 0..3 extra wrappers", hi-w, hi+w, hi)
}

func runC05(c *core.Ctx) {
	var bounds []string
	do := func(fam, src string, hist []string) bool {
		if c.P.Evals&0xff == 0 && c.Expired() {
			return false
		}
		key := src
		if hist != nil {
			key = strings.Join(hist, " ;; ")
		}
		if !c.Mine(fam, key) {
			return true
		}
		c.Current(core.Case{Kind: fam, Data: key})
		v := c.Run(func() *core.Viol { return c05Diff(fam, src, hist) })
		out := "same"
		if v != nil {
			out = v.Class
		} else if c.P.Evals%16 == 0 {
			var r stepRec
			if hist == nil {
				r = runProgram(sessCfg{}, src)
			}
			out = "same:" + outcomeClass(r)
		}
		c.Count(fam+": "+trunc(key, 150), out, true)
		if hist != nil {
			c.P.Traces++
			c.P.Transitions += int64(len(hist)) * 4
		}
		return true
	}
	if c05FnPrograms(!c.Quick(), func(fam, src string) bool { return do(fam, src, nil) }) {
		bounds = append(bounds, "functions with 0..12 parameters: every assignment of {int,float,string,array} arguments for <=3 parameters, all-int / alternating for 4..12; bodies = all sequences of <=2 of 27 parameter uses (thorough: <=3 for 4 argument patterns)")
		if c05LoopPrograms(!c.Quick(), func(fam, src string) bool { return do(fam, src, nil) }) {
			bounds = append(bounds, "counted loops nested to depth 1..3 (thorough 4) with every combination of 5 variable choices (two names, a global's name, a parameter's name, count-only) x range/count forms x 11 exit kinds at every level (before/after the inner loop) x top-level/in-function; depth 4..10 with distinct and repeated names")
			if c05Histories(!c.Quick(), func(fam string, hist []string) bool { return do(fam, "", hist) }) {
				bounds = append(bounds, "session histories: every sequence of <=3 (thorough 4) of 8 top-level loop inputs, each input repeated 4..20 times, each followed by 3 probes")
			}
		}
	}
	// operator table: every infix and prefix operator on two integer parameters / loop variables over boundary values
	{
		vals := []string{"-9223372036854775807 - 1", "-8", "-1", "0", "1", "3", "63", "64", "9223372036854775807"}
		ops := []string{"+", "-", "*", "/", "%", "<<", ">>", "&", "|", "^", "==", "!=", "<", "<=", ">", ">=", "&&", "||", ":"}
		for _, a := range vals {
			for _, b := range vals {
				var exprs []string
				for _, op := range ops {
					exprs = append(exprs, "catch(a "+op+" b)")
				}
				exprs = append(exprs, "-a", "^a", "!a", "+b", "catch(a[b])", "catch([1, 2][a])", "catch(\"s\" * b)")
				body := "[" + strings.Join(exprs, ", ") + "]"
				do("ops", "func f(a, b) { "+body+" }\nprintln(f("+a+", "+b+"))\nprintln(f("+a+", "+b+"))", nil)
				do("ops", "func f(a) { for b = 2 { } ; for b = ("+b+"):("+b+") { }; x = "+b+"; for i = 1 { b = x; println("+body+") } }\nf("+a+")", nil)
			}
		}
		bounds = append(bounds, "every infix / prefix / index operator on two integer parameters (and a parameter with a loop variable) over all pairs of 9 boundary integers")
	}
	// the evaluator's own nesting bound: recursions around the depth where it strikes, with 0..3 extra wrappers
	if nb := c05NestingBoundary(c, do); nb != "" {
		bounds = append(bounds, nb)
	}
	if !c.Expired() {
		// the log level is configuration: at debug / verbose level the evaluator traces (and prints) the rewritten bodies;
		// what the program prints must not depend on it. One-parameter functions and single loops.
		prev := log.GetLogLevel()
		log.SetLogLevelQuiet(log.Debug)
		nb := 0
		okd := c05FnPrograms(false, func(fam, src string) bool {
			if i := strings.Index(src, "func f("); i < 0 || strings.Contains(src[i:i+strings.IndexByte(src[i:], ')')], ",") {
				return true
			}
			nb++
			return do("dbg-"+fam, src, nil)
		})
		if okd {
			okd = c05LoopPrograms(false, func(fam, src string) bool {
				if strings.Count(src, "for ") > 2 {
					return true
				}
				nb++
				return do("dbg-"+fam, src, nil)
			})
		}
		log.SetLogLevelQuiet(prev)
		if okd {
			bounds = append(bounds, fmt.Sprintf("at debug log level: the %d one-parameter function programs and single loops", nb))
		}
	}
	c.P.States = c.P.Traces // every history end state is compared
	c.P.Bound = strings.Join(bounds, "; ") + "; registers on vs off, each with cache on and off"
}

func init() {
	core.Register(&core.Check{
		ID:          "C05",
		Level:       "model_checking",
		Rule:        "differential exploration of the real evaluator under two configurations (State.NoReg false/true), each with the function cache on and off: exhaustive program families (functions x argument kinds x parameter uses; nested counted loops x variable names x forms x exit kinds x position x scope) run on fresh states, and REPL histories (every sequence of <=3 loop inputs, repetitions up to 20 crossing the 8 register slots) on one persistent state followed by probes. Oracle: identical printed output, shown result, error texts, panic flag for every input. Non-trivial = every case (each contains at least one integer parameter or counted loop); distinct by program text. Also: the declaring loop forms (for i := n) with the global and the parameter observed afterwards; parameters / loop variables named like extension namespaces, their members, info and self; the one-parameter function programs and single loops again at debug log level. Round 7: the same loop node entered again in one frame with another number of registers in use (list of counts and lists, a loop spliced twice by a macro); functions left by return from inside a loop while a closure / the rest of the body / eval() still reads the frame; unquote of parameters and loop variables.",
		Assume:      []string{"type/info introspection excluded as the property states", "error texts compared verbatim (EvalOne's error strings)"},
		QuickCap:    100 * time.Second,
		ThoroughCap: 20 * time.Minute,
		HangLimit:   180 * time.Second,
		Run:         runC05,
		Replay: func(c *core.Ctx, cs core.Case) *core.Viol {
			if strings.HasPrefix(cs.Kind, "hist") {
				return c05Diff(cs.Kind, "", strings.Split(cs.Data, " ;; "))
			}
			return c05Diff(cs.Kind, cs.Data, nil)
		},
	})
}
