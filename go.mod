module verif

go 1.23.8

require grol.io/grol v0.0.0

require fortio.org/sets v1.3.0 // indirect

replace grol.io/grol => /repo
