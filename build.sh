#!/bin/bash
# Rebuild bin/vcheck from /repo's current working tree with hooks enabled (-tags verif).
set -e
cd "$(dirname "$0")"
. ./env.sh
cp /repo/go.sum ./go.sum 2>/dev/null || true
mkdir -p bin
# serialise concurrent builds
exec 9>bin/.lock
flock 9
go build -tags verif -o bin/vcheck ./cmd/vcheck
