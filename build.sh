#!/bin/bash
# Rebuild bin/vcheck from /repo's current working tree with hooks enabled (-tags verif).
set -e
cd "$(dirname "$0")"
. ./env.sh
cp /repo/go.sum ./go.sum 2>/dev/null || true
mkdir -p bin
OUT="${VERIF_BIN:-bin/vcheck}"
# serialise concurrent builds
exec 9>bin/.lock
flock 9
if [ -n "$VERIF_REPO" ] && [ "$VERIF_REPO" != "/repo" ]; then
  # isolated copy of the repository (background runs while /repo is being patched)
  sed "s|=> /repo|=> $VERIF_REPO|" go.mod > "$OUT.mod"
  cp go.sum "$OUT.sum"
  go build -modfile="$OUT.mod" -tags verif -o "$OUT" ./cmd/vcheck
else
  go build -tags verif -o "$OUT" ./cmd/vcheck
fi
# the grol command itself (C09's command-line family runs it)
case "$OUT" in /*) ABS="$OUT" ;; *) ABS="$PWD/$OUT" ;; esac
(cd "${VERIF_REPO:-/repo}" && go build -o "$ABS.grol" .)
