# Build environment that works offline for /repo (go 1.23.8 via the cached toolchain) and this module.
export GOFLAGS=-mod=mod GOPROXY=off
unset GOTOOLCHAIN GOSUMDB
export VERIF_DIR="${VERIF_DIR:-$(cd "$(dirname "${BASH_SOURCE[0]}")" && pwd)}"
