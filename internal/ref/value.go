// Package ref is the reference model shared by the checks: values, the documented ordering
// and equality (DESIGN.md §5), printing, and a small reference evaluator.
// It never imports grol's object or eval packages.
package ref

import (
	"math"
	"sort"
	"strconv"
	"strings"
)

type Kind int

// Kinds in the language's cross-type order (numbers first, compared numerically with each other).
const (
	KInt Kind = iota
	KFloat
	KBool
	KNil
	KFunc
	KString
	KArray
	KMap
	KError // not ordered; only produced by evaluation
)

type Pair struct{ K, V Value }

type Value struct {
	Kind Kind
	I    int64
	F    float64
	B    bool
	S    string // string content, function text, error message
	A    []Value
	M    []Pair // kept sorted by key, unique keys (by order-equivalence)
	Fn   *Closure
}

func Int(i int64) Value     { return Value{Kind: KInt, I: i} }
func Float(f float64) Value { return Value{Kind: KFloat, F: f} }
func Bool(b bool) Value     { return Value{Kind: KBool, B: b} }
func Str(s string) Value    { return Value{Kind: KString, S: s} }
func Arr(v ...Value) Value  { return Value{Kind: KArray, A: v} }

var Nil = Value{Kind: KNil}

func Err(msg string) Value { return Value{Kind: KError, S: msg} }

func (v Value) IsErr() bool { return v.Kind == KError }

func isNum(k Kind) bool { return k == KInt || k == KFloat }

func cmpFloat(a, b float64) int {
	// NaN equals NaN and is below every number; -0 equals 0.
	an, bn := math.IsNaN(a), math.IsNaN(b)
	switch {
	case an && bn:
		return 0
	case an:
		return -1
	case bn:
		return 1
	case a < b:
		return -1
	case a > b:
		return 1
	}
	return 0
}

// Cmp is the documented total preorder behind <, map keys, min/max, sort.
func Cmp(a, b Value) int {
	if isNum(a.Kind) && isNum(b.Kind) {
		if a.Kind == KInt && b.Kind == KInt {
			switch {
			case a.I < b.I:
				return -1
			case a.I > b.I:
				return 1
			}
			return 0
		}
		if a.Kind == KFloat && b.Kind == KFloat {
			return cmpFloat(a.F, b.F)
		}
		// mixed: exact comparison of an int64 with a float64
		if a.Kind == KInt {
			return cmpIntFloat(a.I, b.F)
		}
		return -cmpIntFloat(b.I, a.F)
	}
	if a.Kind != b.Kind {
		if a.Kind < b.Kind {
			return -1
		}
		return 1
	}
	switch a.Kind {
	case KBool:
		if a.B == b.B {
			return 0
		}
		if a.B {
			return 1
		}
		return -1
	case KNil:
		return 0
	case KString, KFunc, KError:
		return strings.Compare(a.S, b.S)
	case KArray:
		if len(a.A) != len(b.A) {
			if len(a.A) < len(b.A) {
				return -1
			}
			return 1
		}
		for i := range a.A {
			if c := Cmp(a.A[i], b.A[i]); c != 0 {
				return c
			}
		}
		return 0
	case KMap:
		if len(a.M) != len(b.M) {
			if len(a.M) < len(b.M) {
				return -1
			}
			return 1
		}
		for i := range a.M {
			if c := Cmp(a.M[i].K, b.M[i].K); c != 0 {
				return c
			}
			if c := Cmp(a.M[i].V, b.M[i].V); c != 0 {
				return c
			}
		}
		return 0
	}
	return 0
}

// cmpIntFloat compares an int64 with a float64 exactly (no rounding of the integer).
func cmpIntFloat(i int64, f float64) int {
	if math.IsNaN(f) {
		return 1
	}
	if math.IsInf(f, 1) {
		return -1
	}
	if math.IsInf(f, -1) {
		return 1
	}
	// 2^63 as float
	if f >= 9223372036854775808.0 {
		return -1
	}
	if f < -9223372036854775808.0 {
		return 1
	}
	t := math.Trunc(f)
	ti := int64(t)
	switch {
	case i < ti:
		return -1
	case i > ti:
		return 1
	}
	// integer parts equal: compare fraction
	frac := f - t
	switch {
	case frac > 0:
		return -1
	case frac < 0:
		return 1
	}
	return 0
}

// Equal is the language's ==: same type class for the two operands themselves, then order-equivalence.
func Equal(a, b Value) bool {
	if a.Kind != b.Kind {
		return false
	}
	return Cmp(a, b) == 0
}

func FormatFloat(f float64) string { return strconv.FormatFloat(f, 'f', -1, 64) }

// Inspect is the literal form of a value (what print shows for non-strings and what nests inside containers).
func Inspect(v Value) string {
	switch v.Kind {
	case KInt:
		return strconv.FormatInt(v.I, 10)
	case KFloat:
		return FormatFloat(v.F)
	case KBool:
		if v.B {
			return "true"
		}
		return "false"
	case KNil:
		return "nil"
	case KString:
		return strconv.Quote(v.S)
	case KFunc:
		return v.S
	case KError:
		return "<err: " + v.S + ">"
	case KArray:
		var sb strings.Builder
		sb.WriteByte('[')
		for i, e := range v.A {
			if i > 0 {
				sb.WriteByte(',')
			}
			sb.WriteString(Inspect(e))
		}
		sb.WriteByte(']')
		return sb.String()
	case KMap:
		var sb strings.Builder
		sb.WriteByte('{')
		for i, p := range v.M {
			if i > 0 {
				sb.WriteByte(',')
			}
			sb.WriteString(Inspect(p.K))
			sb.WriteByte(':')
			sb.WriteString(Inspect(p.V))
		}
		sb.WriteByte('}')
		return sb.String()
	}
	return "?"
}

// Dump is a type-tagged structural dump (same format as obs.DumpValue produces for grol objects).
func Dump(v Value) string {
	switch v.Kind {
	case KInt:
		return "I:" + strconv.FormatInt(v.I, 10)
	case KFloat:
		if math.IsNaN(v.F) {
			return "F:NaN"
		}
		return "F:" + strconv.FormatUint(math.Float64bits(v.F), 16)
	case KBool:
		if v.B {
			return "B:t"
		}
		return "B:f"
	case KNil:
		return "N"
	case KString:
		return "S:" + strconv.Quote(v.S)
	case KFunc:
		return "FN"
	case KError:
		return "E"
	case KArray:
		var sb strings.Builder
		sb.WriteString("A[")
		for i, e := range v.A {
			if i > 0 {
				sb.WriteByte(',')
			}
			sb.WriteString(Dump(e))
		}
		sb.WriteByte(']')
		return sb.String()
	case KMap:
		var sb strings.Builder
		sb.WriteString("M{")
		for i, p := range v.M {
			if i > 0 {
				sb.WriteByte(',')
			}
			sb.WriteString(Dump(p.K))
			sb.WriteByte('=')
			sb.WriteString(Dump(p.V))
		}
		sb.WriteByte('}')
		return sb.String()
	}
	return "?"
}

// Source renders a value as grol source text that evaluates to it.
func Source(v Value) string {
	switch v.Kind {
	case KFloat:
		switch {
		case math.IsNaN(v.F):
			return "NaN"
		case math.IsInf(v.F, 1):
			return "Inf"
		case math.IsInf(v.F, -1):
			return "(-Inf)"
		}
		s := strconv.FormatFloat(v.F, 'g', -1, 64)
		if !strings.ContainsAny(s, ".e") {
			s += ".0"
		}
		if v.F < 0 || (v.F == 0 && math.Signbit(v.F)) {
			return "(" + s + ")"
		}
		return s
	case KInt:
		if v.I == math.MinInt64 {
			return "(-9223372036854775807-1)"
		}
		if v.I < 0 {
			return "(" + strconv.FormatInt(v.I, 10) + ")"
		}
		return strconv.FormatInt(v.I, 10)
	case KString:
		return SourceString(v.S)
	case KArray:
		parts := make([]string, len(v.A))
		for i, e := range v.A {
			parts[i] = Source(e)
		}
		return "[" + strings.Join(parts, ",") + "]"
	case KMap:
		parts := make([]string, len(v.M))
		for i, p := range v.M {
			parts[i] = Source(p.K) + ":" + Source(p.V)
		}
		return "{" + strings.Join(parts, ",") + "}"
	}
	return Inspect(v)
}

// SourceString renders string content as a double-quoted grol literal using only the escapes the lexer knows.
func SourceString(s string) string {
	var sb strings.Builder
	sb.WriteByte('"')
	for i := 0; i < len(s); i++ {
		b := s[i]
		switch {
		case b == '"' || b == '\\':
			sb.WriteByte('\\')
			sb.WriteByte(b)
		case b == '\n':
			sb.WriteString("\\n")
		case b == '\r':
			sb.WriteString("\\r")
		case b == '\t':
			sb.WriteString("\\t")
		case b < 0x20 || b >= 0x7f:
			sb.WriteString("\\x")
			sb.WriteString(strconv.FormatUint(uint64(b)>>4, 16))
			sb.WriteString(strconv.FormatUint(uint64(b)&15, 16))
		default:
			sb.WriteByte(b)
		}
	}
	sb.WriteByte('"')
	return sb.String()
}

// ---- reference map: sorted slice of pairs with unique keys ----

func MapGet(m Value, k Value) (Value, bool) {
	for _, p := range m.M {
		if Cmp(p.K, k) == 0 {
			return p.V, true
		}
	}
	return Nil, false
}

// MapSet returns a new map value with k bound to v (an existing order-equivalent key keeps its stored key).
func MapSet(m Value, k, v Value) Value {
	out := Value{Kind: KMap, M: make([]Pair, 0, len(m.M)+1)}
	done := false
	for _, p := range m.M {
		if Cmp(p.K, k) == 0 {
			out.M = append(out.M, Pair{p.K, v})
			done = true
		} else {
			out.M = append(out.M, p)
		}
	}
	if !done {
		out.M = append(out.M, Pair{k, v})
		sort.SliceStable(out.M, func(i, j int) bool { return Cmp(out.M[i].K, out.M[j].K) < 0 })
	}
	return out
}

func MapDelete(m Value, k Value) (Value, bool) {
	out := Value{Kind: KMap, M: make([]Pair, 0, len(m.M))}
	found := false
	for _, p := range m.M {
		if Cmp(p.K, k) == 0 {
			found = true
			continue
		}
		out.M = append(out.M, p)
	}
	return out, found
}

func MapAppend(a, b Value) Value {
	out := a
	for _, p := range b.M {
		out = MapSet(out, p.K, p.V)
	}
	if out.M == nil {
		out = Value{Kind: KMap}
	}
	return out
}

func NewMap(pairs ...Pair) Value {
	m := Value{Kind: KMap}
	for _, p := range pairs {
		m = MapSet(m, p.K, p.V)
	}
	return m
}

// Copy is a deep copy (containers are values).
func Copy(v Value) Value {
	switch v.Kind {
	case KArray:
		a := make([]Value, len(v.A))
		for i := range v.A {
			a[i] = Copy(v.A[i])
		}
		return Value{Kind: KArray, A: a}
	case KMap:
		m := make([]Pair, len(v.M))
		for i := range v.M {
			m[i] = Pair{Copy(v.M[i].K), Copy(v.M[i].V)}
		}
		return Value{Kind: KMap, M: m}
	}
	return v
}
