package ref

import (
	"fmt"
	"strconv"
	"strings"
)

// An independent reader for the core language (DESIGN.md §5): own tokenizer and own precedence-climbing
// parser built from the documented precedence table. It shares no code with grol's lexer/parser. Anything
// outside the core subset yields ErrUnsupported, and the case is then not compared.

type NK int

const (
	NInt NK = iota
	NFloat
	NStr
	NBool
	NIdent
	NPrefix  // S=op, K[0]
	NPostfix // S=op, Name
	NInfix   // S=op, K[0], K[1]
	NAssign  // S="=" or ":=", K[0]=target, K[1]=value
	NIndex   // K[0][K[1]]
	NSlice   // K[0][K[1]:K[2]]  (K[2]==nil: open)
	NDot     // K[0].Name
	NCall    // K[0](K[1:]...)
	NArray
	NMap // K = k0,v0,k1,v1...
	NFunc
	NIf  // K[0] cond, Body, Else (nil if absent)
	NFor // K[0] cond, Body
	NReturn
	NBreak
	NContinue
	NBuiltin // S=name, K=args
)

type Node struct {
	Kind     NK
	S        string
	Name     string
	I        int64
	F        float64
	B        bool
	K        []*Node
	Body     []*Node
	Else     []*Node
	HasElse  bool
	Params   []string
	Variadic bool
}

type ErrUnsupported struct{ What string }

func (e ErrUnsupported) Error() string { return "unsupported: " + e.What }

type ErrSyntax struct{ What string }

func (e ErrSyntax) Error() string { return "syntax: " + e.What }

// ---- tokens ----

type tk struct {
	kind string // "int" "float" "str" "id" "op" "eof"
	s    string
	ws   bool // whitespace before
}

var keywords = map[string]bool{"func": true, "true": true, "false": true, "if": true, "else": true, "return": true, "for": true, "break": true, "continue": true,
	"macro": true, "quote": true, "unquote": true, "len": true, "first": true, "rest": true, "print": true, "println": true, "log": true, "error": true, "catch": true, "del": true}

var ops2 = []string{"==", "!=", ":=", "=>", "++", "--", "||", "&&", "<<", ">>", "<=", ">=", ".."}

func tokenize(src string) ([]tk, error) {
	var out []tk
	i := 0
	ws := false
	for i < len(src) {
		c := src[i]
		switch {
		case c == ' ' || c == '\t' || c == '\n' || c == '\r':
			ws = true
			i++
			continue
		case c == '/' && i+1 < len(src) && (src[i+1] == '/' || src[i+1] == '*'):
			return nil, ErrUnsupported{"comment"}
		case c == '_' || (c >= 'a' && c <= 'z') || (c >= 'A' && c <= 'Z'):
			j := i
			for j < len(src) && (src[j] == '_' || (src[j] >= 'a' && src[j] <= 'z') || (src[j] >= 'A' && src[j] <= 'Z') || (src[j] >= '0' && src[j] <= '9')) {
				j++
			}
			out = append(out, tk{"id", src[i:j], ws})
			i = j
		case (c >= '0' && c <= '9') || (c == '.' && i+1 < len(src) && src[i+1] >= '0' && src[i+1] <= '9'):
			j := i
			isFloat := false
			if c == '0' && j+1 < len(src) && (src[j+1] == 'x' || src[j+1] == 'b') {
				j += 2
				for j < len(src) && (src[j] == '_' || (src[j] >= '0' && src[j] <= '9') || (src[j] >= 'a' && src[j] <= 'f') || (src[j] >= 'A' && src[j] <= 'F')) {
					j++
				}
			} else {
				for j < len(src) && ((src[j] >= '0' && src[j] <= '9') || src[j] == '_') {
					j++
				}
				if j < len(src) && src[j] == '.' && !(j+1 < len(src) && src[j+1] == '.') {
					isFloat = true
					j++
					for j < len(src) && ((src[j] >= '0' && src[j] <= '9') || src[j] == '_') {
						j++
					}
				}
				if j < len(src) && (src[j] == 'e' || src[j] == 'E') {
					k := j + 1
					if k < len(src) && (src[k] == '+' || src[k] == '-') {
						k++
					}
					if k < len(src) && src[k] >= '0' && src[k] <= '9' {
						isFloat = true
						j = k
						for j < len(src) && ((src[j] >= '0' && src[j] <= '9') || src[j] == '_') {
							j++
						}
					}
				}
			}
			kind := "int"
			if isFloat {
				kind = "float"
			}
			out = append(out, tk{kind, src[i:j], ws})
			i = j
		case c == '"':
			j := i + 1
			var sb strings.Builder
			closed := false
			for j < len(src) {
				if src[j] == '"' {
					closed = true
					j++
					break
				}
				if src[j] == '\\' && j+1 < len(src) {
					e := src[j+1]
					j += 2
					switch e {
					case 'n':
						sb.WriteByte('\n')
					case 'r':
						sb.WriteByte('\r')
					case 't':
						sb.WriteByte('\t')
					case 'a':
						sb.WriteByte(7)
					case 'b':
						sb.WriteByte(8)
					case 'f':
						sb.WriteByte(12)
					case 'v':
						sb.WriteByte(11)
					case 'x':
						if j+2 > len(src) {
							return nil, ErrSyntax{"bad escape"}
						}
						v, err := strconv.ParseUint(src[j:j+2], 16, 8)
						if err != nil {
							return nil, ErrUnsupported{"odd \\x escape"}
						}
						sb.WriteByte(byte(v))
						j += 2
					case 'u', 'U':
						return nil, ErrUnsupported{"unicode escape"}
					default:
						sb.WriteByte(e)
					}
					continue
				}
				sb.WriteByte(src[j])
				j++
			}
			if !closed {
				return nil, ErrSyntax{"unterminated string"}
			}
			out = append(out, tk{"str", sb.String(), ws})
			i = j
		case c == '`':
			j := strings.IndexByte(src[i+1:], '`')
			if j < 0 {
				return nil, ErrSyntax{"unterminated string"}
			}
			out = append(out, tk{"str", src[i+1 : i+1+j], ws})
			i = i + j + 2
		default:
			if i+1 < len(src) {
				two := src[i : i+2]
				found := false
				for _, o := range ops2 {
					if o == two {
						found = true
					}
				}
				if found {
					out = append(out, tk{"op", two, ws})
					i += 2
					ws = false
					continue
				}
			}
			if strings.IndexByte("=+-!*/%<>&|^~,;(){}[]:.", c) < 0 {
				return nil, ErrSyntax{fmt.Sprintf("illegal byte %q", c)}
			}
			out = append(out, tk{"op", string(c), ws})
			i++
		}
		ws = false
	}
	out = append(out, tk{"eof", "", ws})
	return out, nil
}

// ---- precedence (loosest to tightest), all binary operators left associative ----

const (
	pLowest = iota
	pAssign
	pOr
	pAnd // && and :
	pLambda
	pEquals
	pLess
	pSum     // + - | ^
	pProduct // * % << >> &
	pDivide  // /
	pPrefix
	pCall
	pIndex
	pDot
)

var binPrec = map[string]int{
	"=": pAssign, ":=": pAssign, "||": pOr, "&&": pAnd, ":": pAnd, "=>": pLambda, "==": pEquals, "!=": pEquals,
	"<": pLess, ">": pLess, "<=": pLess, ">=": pLess, "+": pSum, "-": pSum, "|": pSum, "^": pSum,
	"*": pProduct, "%": pProduct, "<<": pProduct, ">>": pProduct, "&": pProduct, "/": pDivide,
	"(": pCall, "[": pIndex, ".": pDot,
}

type rparser struct {
	t []tk
	p int
}

func (r *rparser) cur() tk  { return r.t[r.p] }
func (r *rparser) peek() tk { return r.t[min(r.p+1, len(r.t)-1)] }
func (r *rparser) next()    { r.p = min(r.p+1, len(r.t)-1) }
func (r *rparser) isOp(s string) bool {
	return r.cur().kind == "op" && r.cur().s == s
}
func (r *rparser) expectOp(s string) error {
	if !r.isOp(s) {
		return ErrSyntax{fmt.Sprintf("expected %q got %q", s, r.cur().s)}
	}
	r.next()
	return nil
}

// Parse parses a program of the core language.
func Parse(src string) ([]*Node, error) {
	toks, err := tokenize(src)
	if err != nil {
		return nil, err
	}
	r := &rparser{t: toks}
	return r.stmts("eof")
}

func (r *rparser) stmts(end string) ([]*Node, error) {
	out := []*Node{}
	for {
		if end == "eof" && r.cur().kind == "eof" {
			return out, nil
		}
		if end == "}" && r.isOp("}") {
			return out, nil
		}
		if r.cur().kind == "eof" {
			return nil, ErrSyntax{"unexpected end"}
		}
		s, err := r.stmt()
		if err != nil {
			return nil, err
		}
		out = append(out, s)
		if r.isOp(";") {
			r.next()
		}
	}
}

func (r *rparser) stmt() (*Node, error) {
	c := r.cur()
	if c.kind == "id" && c.s == "return" {
		r.next()
		if r.isOp(";") || r.isOp("}") || r.cur().kind == "eof" {
			return &Node{Kind: NReturn}, nil
		}
		x, err := r.expr(pLowest)
		if err != nil {
			return nil, err
		}
		return &Node{Kind: NReturn, K: []*Node{x}}, nil
	}
	return r.expr(pLowest)
}

func (r *rparser) block() ([]*Node, error) {
	if err := r.expectOp("{"); err != nil {
		return nil, err
	}
	b, err := r.stmts("}")
	if err != nil {
		return nil, err
	}
	if err := r.expectOp("}"); err != nil {
		return nil, err
	}
	return b, nil
}

func (r *rparser) exprList(end string) ([]*Node, error) {
	var out []*Node
	if r.isOp(end) {
		r.next()
		return out, nil
	}
	for {
		x, err := r.expr(pLowest)
		if err != nil {
			return nil, err
		}
		out = append(out, x)
		if r.isOp(",") {
			r.next()
			continue
		}
		if err := r.expectOp(end); err != nil {
			return nil, err
		}
		return out, nil
	}
}

func paramNames(ns []*Node) ([]string, bool, error) {
	var names []string
	variadic := false
	for i, n := range ns {
		if n.Kind != NIdent {
			return nil, false, ErrSyntax{"lambda parameters must be identifiers"}
		}
		if n.Name == ".." {
			if i != len(ns)-1 {
				return nil, false, ErrUnsupported{".. not last"}
			}
			variadic = true
		}
		names = append(names, n.Name)
	}
	return names, variadic, nil
}

func (r *rparser) lambdaBody(params []*Node, prec int) (*Node, error) {
	names, variadic, err := paramNames(params)
	if err != nil {
		return nil, err
	}
	fn := &Node{Kind: NFunc, Params: names, Variadic: variadic}
	if r.isOp("{") {
		b, err := r.block()
		if err != nil {
			return nil, err
		}
		fn.Body = b
		return fn, nil
	}
	x, err := r.expr(prec)
	if err != nil {
		return nil, err
	}
	fn.Body = []*Node{x}
	return fn, nil
}

func (r *rparser) prefix() (*Node, error) {
	c := r.cur()
	switch c.kind {
	case "int":
		r.next()
		v, err := strconv.ParseInt(c.s, 0, 64)
		if err != nil {
			f, ferr := strconv.ParseFloat(c.s, 64)
			if ferr != nil {
				return nil, ErrSyntax{"bad number " + c.s}
			}
			return &Node{Kind: NFloat, F: f}, nil
		}
		return &Node{Kind: NInt, I: v}, nil
	case "float":
		r.next()
		f, err := strconv.ParseFloat(c.s, 64)
		if err != nil {
			return nil, ErrSyntax{"bad float " + c.s}
		}
		return &Node{Kind: NFloat, F: f}, nil
	case "str":
		r.next()
		return &Node{Kind: NStr, S: c.s}, nil
	case "id":
		switch c.s {
		case "true", "false":
			r.next()
			return &Node{Kind: NBool, B: c.s == "true"}, nil
		case "if":
			return r.ifExpr()
		case "for":
			r.next()
			cond, err := r.expr(pLowest)
			if err != nil {
				return nil, err
			}
			b, err := r.block()
			if err != nil {
				return nil, err
			}
			return &Node{Kind: NFor, K: []*Node{cond}, Body: b}, nil
		case "break":
			r.next()
			return &Node{Kind: NBreak}, nil
		case "continue":
			r.next()
			return &Node{Kind: NContinue}, nil
		case "func":
			r.next()
			fn := &Node{Kind: NFunc}
			if r.cur().kind == "id" && !keywords[r.cur().s] {
				fn.Name = r.cur().s
				r.next()
			}
			if !r.isOp("(") || (r.cur().ws && false) {
				return nil, ErrSyntax{"expected ("}
			}
			r.next()
			ps, err := r.exprList(")")
			if err != nil {
				return nil, err
			}
			names, variadic, err := paramNames(ps)
			if err != nil {
				return nil, err
			}
			fn.Params, fn.Variadic = names, variadic
			b, err := r.block()
			if err != nil {
				return nil, err
			}
			fn.Body = b
			return fn, nil
		case "len", "first", "rest", "print", "println", "error", "catch", "del":
			r.next()
			if !r.isOp("(") {
				return nil, ErrSyntax{"expected ( after builtin"}
			}
			r.next()
			args, err := r.exprList(")")
			if err != nil {
				return nil, err
			}
			return &Node{Kind: NBuiltin, S: c.s, K: args}, nil
		case "macro", "quote", "unquote", "log", "return", "else":
			return nil, ErrUnsupported{c.s}
		}
		r.next()
		// postfix
		if r.cur().kind == "op" && (r.cur().s == "++" || r.cur().s == "--") {
			op := r.cur().s
			r.next()
			return &Node{Kind: NPostfix, S: op, Name: c.s}, nil
		}
		return &Node{Kind: NIdent, Name: c.s}, nil
	case "op":
		switch c.s {
		case "..":
			r.next()
			return &Node{Kind: NIdent, Name: ".."}, nil
		case "-", "!", "+", "~", "^", "++", "--":
			r.next()
			x, err := r.expr(pPrefix)
			if err != nil {
				return nil, err
			}
			return &Node{Kind: NPrefix, S: c.s, K: []*Node{x}}, nil
		case "(":
			r.next()
			if r.isOp(")") { // () => ...
				r.next()
				if !r.isOp("=>") {
					return nil, ErrSyntax{"empty parens"}
				}
				r.next()
				return r.lambdaBody(nil, pLambda)
			}
			x, err := r.expr(pLowest)
			if err != nil {
				return nil, err
			}
			if r.isOp(",") {
				r.next()
				more, err := r.exprList(")")
				if err != nil {
					return nil, err
				}
				if !r.isOp("=>") {
					return nil, ErrSyntax{"expected =>"}
				}
				r.next()
				return r.lambdaBody(append([]*Node{x}, more...), pLambda)
			}
			if err := r.expectOp(")"); err != nil {
				return nil, err
			}
			return x, nil
		case "[":
			r.next()
			els, err := r.exprList("]")
			if err != nil {
				return nil, err
			}
			if els == nil {
				els = []*Node{}
			}
			return &Node{Kind: NArray, K: els}, nil
		case "{":
			r.next()
			m := &Node{Kind: NMap}
			for !r.isOp("}") {
				kv, err := r.expr(pLowest)
				if err != nil {
					return nil, err
				}
				if kv.Kind != NInfix || kv.S != ":" {
					return nil, ErrSyntax{"expected key:value"}
				}
				m.K = append(m.K, kv.K[0], kv.K[1])
				if r.isOp(",") {
					r.next()
				} else if !r.isOp("}") {
					return nil, ErrSyntax{"expected , or }"}
				}
			}
			r.next()
			return m, nil
		}
	}
	return nil, ErrSyntax{fmt.Sprintf("unexpected %q", c.s)}
}

func (r *rparser) ifExpr() (*Node, error) {
	r.next() // if
	cond, err := r.expr(pLowest)
	if err != nil {
		return nil, err
	}
	th, err := r.block()
	if err != nil {
		return nil, err
	}
	n := &Node{Kind: NIf, K: []*Node{cond}, Body: th}
	if r.cur().kind == "id" && r.cur().s == "else" {
		r.next()
		n.HasElse = true
		if r.cur().kind == "id" && r.cur().s == "if" {
			e, err := r.ifExpr()
			if err != nil {
				return nil, err
			}
			n.Else = []*Node{e}
			return n, nil
		}
		el, err := r.block()
		if err != nil {
			return nil, err
		}
		n.Else = el
	}
	return n, nil
}

func (r *rparser) expr(prec int) (*Node, error) {
	left, err := r.prefix()
	if err != nil {
		return nil, err
	}
	for {
		c := r.cur()
		if c.kind != "op" || c.s == ";" {
			return left, nil
		}
		p, ok := binPrec[c.s]
		if !ok || p < prec || (p == prec && c.s != "=>") { // lambdas chain to the right: a => b => a+b
			return left, nil
		}
		switch c.s {
		case "(":
			if c.ws {
				return left, nil
			}
			r.next()
			args, err := r.exprList(")")
			if err != nil {
				return nil, err
			}
			left = &Node{Kind: NCall, K: append([]*Node{left}, args...)}
		case "[":
			if c.ws {
				return left, nil
			}
			r.next()
			idx, err := r.expr(pLowest)
			if err != nil {
				return nil, err
			}
			if err := r.expectOp("]"); err != nil {
				return nil, err
			}
			if idx.Kind == NInfix && idx.S == ":" {
				left = &Node{Kind: NSlice, K: []*Node{left, idx.K[0], idx.K[1]}}
			} else {
				left = &Node{Kind: NIndex, K: []*Node{left, idx}}
			}
		case ".":
			r.next()
			k := r.cur()
			if k.kind == "id" && !keywords[k.s] {
				r.next()
				left = &Node{Kind: NDot, Name: k.s, K: []*Node{left}}
			} else if k.kind == "str" {
				r.next()
				left = &Node{Kind: NDot, Name: k.s, K: []*Node{left}}
			} else {
				return nil, ErrUnsupported{"dot with non-name"}
			}
		case "=>":
			r.next()
			fn, err := r.lambdaBody([]*Node{left}, pLambda)
			if err != nil {
				return nil, err
			}
			left = fn
			if prec == pLambda {
				// a lambda that is itself the body of a lambda ends that body: what follows (call, index, operator)
				// applies to the outer lambda, x => y => {}() is (x => y => {})()
				return left, nil
			}
		case ":":
			r.next()
			if r.isOp("]") { // open ended slice
				left = &Node{Kind: NInfix, S: ":", K: []*Node{left, nil}}
				continue
			}
			right, err := r.expr(p)
			if err != nil {
				return nil, err
			}
			left = &Node{Kind: NInfix, S: ":", K: []*Node{left, right}}
		case "=", ":=":
			r.next()
			right, err := r.expr(p)
			if err != nil {
				return nil, err
			}
			left = &Node{Kind: NAssign, S: c.s, K: []*Node{left, right}}
		default:
			r.next()
			right, err := r.expr(p)
			if err != nil {
				return nil, err
			}
			left = &Node{Kind: NInfix, S: c.s, K: []*Node{left, right}}
		}
	}
}
