package ref

// placeholders until the reference evaluator (eval.go) is written
type Node struct{}
type Frame struct{}
