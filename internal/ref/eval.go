package ref

import (
	"fmt"
	"math"
	"strings"
	"unicode/utf8"
)

// Reference evaluator of the documented semantics (DESIGN.md §5). Containers are immutable values (every
// mutation builds a new value); no registers, no cache, no references: exactly what C04/C05/C06 say must
// be unobservable in the implementation.

type Frame struct {
	Vars  map[string]Value
	Outer *Frame
	Fn    *Closure
}

type ctl int

const (
	cNone ctl = iota
	cBreak
	cContinue
	cReturn
)

type Interp struct {
	Out      strings.Builder
	Global   *Frame
	Steps    int
	MaxSteps int
	Depth    int
	MaxDepth int
	Unsup    string // set when the program uses something the reference does not model
}

func NewInterp() *Interp {
	g := &Frame{Vars: map[string]Value{}}
	g.Vars["nil"] = Nil
	g.Vars["null"] = Nil
	g.Vars["NaN"] = Float(math.NaN())
	g.Vars["Inf"] = Float(math.Inf(1))
	g.Vars["PI"] = Float(math.Pi)
	g.Vars["E"] = Float(math.E)
	return &Interp{Global: g, MaxSteps: 200000, MaxDepth: 200}
}

// Result of running a program.
type Result struct {
	Out   string
	Val   Value
	IsErr bool
	Unsup string
}

// Run evaluates a program text on this interpreter (state persists between calls, like a session).
func (in *Interp) Run(src string) Result {
	prog, err := Parse(src)
	if err != nil {
		if u, ok := err.(ErrUnsupported); ok {
			return Result{Unsup: u.What}
		}
		return Result{IsErr: true, Val: Err(err.Error()), Unsup: "parse:" + err.Error()}
	}
	in.Out.Reset()
	in.Unsup = ""
	in.Steps = 0
	in.Depth = 0
	v, c := in.block(prog, in.Global)
	_ = c // break/continue at top level: an error in the language
	if c == cBreak || c == cContinue {
		v = Err("unexpected control outside of for loops")
	}
	if hasCaughtMsg(v) {
		in.unsup("the message of a caught error is (part of) the final value")
	}
	return Result{Out: in.Out.String(), Val: v, IsErr: v.IsErr(), Unsup: in.Unsup}
}

func (in *Interp) unsup(what string) Value {
	if in.Unsup == "" {
		in.Unsup = what
	}
	return Err("unsupported: " + what)
}

func (f *Frame) lookup(name string) (Value, *Frame, bool) {
	for e := f; e != nil; e = e.Outer {
		if v, ok := e.Vars[name]; ok {
			return v, e, true
		}
	}
	return Nil, nil, false
}

func isUpper(name string) bool {
	for i, c := range name {
		if i != 0 && (c == '_' || (c >= '0' && c <= '9')) {
			continue
		}
		if c < 'A' || c > 'Z' {
			return false
		}
	}
	return true
}

// assign implements `=` (update the nearest existing binding, else create locally) and `:=` (always local).
func (in *Interp) assign(f *Frame, name string, v Value, define bool) Value {
	if isUpper(name) {
		if old, _, ok := f.lookup(name); ok && !Equal(old, v) {
			return Err("attempt to change constant " + name)
		}
	}
	v = Copy(v)
	if define {
		f.Vars[name] = v
		return v
	}
	if _, e, ok := f.lookup(name); ok {
		e.Vars[name] = v
		return v
	}
	f.Vars[name] = v
	return v
}

func (in *Interp) block(stmts []*Node, f *Frame) (Value, ctl) {
	var last Value = Nil
	for _, s := range stmts {
		v, c := in.eval(s, f)
		if c != cNone || v.IsErr() {
			return v, c
		}
		last = v
	}
	return last, cNone
}

// ev evaluates an expression whose control result is not meaningful (operands): a return inside an operand
// yields its value (the implementation unwraps return values at each Eval).
func (in *Interp) ev(n *Node, f *Frame) Value {
	v, c := in.eval(n, f)
	if c == cBreak || c == cContinue {
		return Err("unexpected control type outside of for loops")
	}
	return v
}

func (in *Interp) eval(n *Node, f *Frame) (Value, ctl) {
	in.Steps++
	if in.Steps > in.MaxSteps {
		return in.unsup("step budget"), cNone
	}
	switch n.Kind {
	case NInt:
		return Int(n.I), cNone
	case NFloat:
		return Float(n.F), cNone
	case NStr:
		return Str(n.S), cNone
	case NBool:
		return Bool(n.B), cNone
	case NIdent:
		if n.Name == "self" {
			if f.Fn != nil {
				return Value{Kind: KFunc, Fn: f.Fn, S: fnKey(f.Fn)}, cNone
			}
			return Err("identifier not found: self"), cNone
		}
		if n.Name == "info" {
			return in.unsup("info"), cNone
		}
		if f.Fn != nil && f.Fn.Name != "" && f.Fn.Name == n.Name {
			return Value{Kind: KFunc, Fn: f.Fn, S: fnKey(f.Fn)}, cNone
		}
		v, _, ok := f.lookup(n.Name)
		if !ok {
			if extNames[n.Name] {
				return in.unsup("extension " + n.Name), cNone
			}
			return Err("identifier not found: " + n.Name), cNone
		}
		return v, cNone
	case NPrefix:
		return in.prefix(n, f), cNone
	case NPostfix:
		old, _, ok := f.lookup(n.Name)
		if !ok {
			return Err("identifier not found: " + n.Name), cNone
		}
		d := int64(1)
		if n.S == "--" {
			d = -1
		}
		switch old.Kind {
		case KInt:
			if r := in.assign(f, n.Name, Int(old.I+d), false); r.IsErr() {
				return r, cNone
			}
		case KFloat:
			if r := in.assign(f, n.Name, Float(old.F+float64(d)), false); r.IsErr() {
				return r, cNone
			}
		default:
			return Err("can't postfix increment/decrement"), cNone
		}
		return old, cNone
	case NAssign:
		return in.assignNode(n, f), cNone
	case NInfix:
		return in.infix(n, f), cNone
	case NIndex:
		l := in.ev(n.K[0], f)
		if l.IsErr() {
			return l, cNone
		}
		idx := in.ev(n.K[1], f)
		if idx.IsErr() {
			return idx, cNone
		}
		return index(l, idx), cNone
	case NDot:
		l := in.ev(n.K[0], f)
		if l.IsErr() {
			return l, cNone
		}
		return index(l, Str(n.Name)), cNone
	case NSlice:
		return in.slice(n, f), cNone
	case NArray:
		els := make([]Value, 0, len(n.K))
		for _, k := range n.K {
			v := in.evArg(k, f)
			if v.IsErr() {
				return v, cNone
			}
			els = append(els, v)
		}
		return Value{Kind: KArray, A: els}, cNone
	case NMap:
		m := Value{Kind: KMap}
		for i := 0; i+1 < len(n.K); i += 2 {
			k := in.ev(n.K[i], f)
			if k.IsErr() {
				return k, cNone
			}
			v := in.ev(n.K[i+1], f)
			if v.IsErr() {
				return v, cNone
			}
			m = MapSet(m, k, v)
		}
		return m, cNone
	case NFunc:
		cl := &Closure{Name: n.Name, Params: n.Params, Variadic: n.Variadic, Body: n.Body, Env: f, Text: funcText(n)}
		v := Value{Kind: KFunc, Fn: cl, S: fnKey(cl)}
		if n.Name != "" {
			if r := in.assign(f, n.Name, v, false); r.IsErr() {
				return r, cNone
			}
		}
		return v, cNone
	case NCall:
		return in.call(n, f), cNone
	case NIf:
		c := in.evArg(n.K[0], f)
		if c.IsErr() {
			return c, cNone
		}
		if c.Kind != KBool {
			return Err("condition is not a boolean"), cNone
		}
		if c.B {
			return in.block(n.Body, f)
		}
		if n.HasElse {
			return in.block(n.Else, f)
		}
		return Nil, cNone
	case NFor:
		return in.forLoop(n, f)
	case NReturn:
		if len(n.K) == 0 {
			return Nil, cReturn
		}
		v, c := in.eval(n.K[0], f)
		if v.IsErr() {
			return v, cNone
		}
		if c == cBreak || c == cContinue {
			return Err("unexpected control type"), cNone
		}
		return v, cReturn
	case NBreak:
		return Nil, cBreak
	case NContinue:
		return Nil, cContinue
	case NBuiltin:
		return in.builtin(n, f), cNone
	}
	return in.unsup(fmt.Sprintf("node kind %d", n.Kind)), cNone
}

// evArg evaluates an operand the way array elements, call arguments, conditions and print arguments are
// evaluated: its value is taken now.
func (in *Interp) evArg(n *Node, f *Frame) Value { return in.ev(n, f) }

var extNames = map[string]bool{"abs": true, "keys": true, "str": true, "printf": true, "log2": true, "sprintf": true, "min": true, "max": true, "int": true,
	"type": true, "eval": true, "json": true, "rand": true, "sleep": true, "save": true, "load": true, "split": true, "join": true, "format": true, "round": true,
	"sin": true, "cos": true, "pow": true, "sqrt": true, "trim": true, "runes": true, "width": true, "defun": true, "unjson": true, "base64": true, "floor": true, "ceil": true}

// fnKey is what two function values are compared by: the text and, for a named function, its name (func f(a) { 1 } and
// (a) => 1 are two functions, as are func f and func g with the same body).
func fnKey(cl *Closure) string {
	if cl.Name != "" {
		return "func " + cl.Name + cl.Text
	}
	return cl.Text
}

func nodesHaveFunc(ns []*Node) bool {
	for _, n := range ns {
		if n == nil {
			continue
		}
		if n.Kind == NFunc || nodesHaveFunc(n.K) || nodesHaveFunc(n.Body) || nodesHaveFunc(n.Else) {
			return true
		}
	}
	return false
}

func funcText(n *Node) string {
	var sb strings.Builder
	sb.WriteString("(" + strings.Join(n.Params, ",") + ")")
	writeNodes(&sb, n.Body)
	return sb.String()
}

func writeNodes(sb *strings.Builder, ns []*Node) {
	sb.WriteString("{")
	for _, n := range ns {
		writeNode(sb, n)
		sb.WriteString(";")
	}
	sb.WriteString("}")
}

func writeNode(sb *strings.Builder, n *Node) {
	if n == nil {
		sb.WriteString("_")
		return
	}
	fmt.Fprintf(sb, "(%d %s %s %d %v %v", n.Kind, n.S, n.Name, n.I, n.F, n.B)
	for _, k := range n.K {
		sb.WriteString(" ")
		writeNode(sb, k)
	}
	if n.Kind == NFunc {
		sb.WriteString(" " + strings.Join(n.Params, ","))
	}
	if n.Body != nil {
		writeNodes(sb, n.Body)
	}
	if n.HasElse {
		writeNodes(sb, n.Else)
	}
	sb.WriteString(")")
}

func (in *Interp) prefix(n *Node, f *Frame) Value {
	if n.S == "++" || n.S == "--" {
		t := n.K[0]
		if t.Kind != NIdent {
			return Err("can't prefix increment/decrement")
		}
		old, _, ok := f.lookup(t.Name)
		if !ok {
			return Err("identifier not found: " + t.Name)
		}
		d := int64(1)
		if n.S == "--" {
			d = -1
		}
		switch old.Kind {
		case KInt:
			return in.assign(f, t.Name, Int(old.I+d), false)
		case KFloat:
			return in.assign(f, t.Name, Float(old.F+float64(d)), false)
		}
		return Err("can't prefix increment/decrement")
	}
	v := in.ev(n.K[0], f)
	if v.IsErr() {
		return v
	}
	switch n.S {
	case "!":
		switch v.Kind {
		case KBool:
			return Bool(!v.B)
		case KNil:
			return Bool(true)
		}
		return Err("not of")
	case "-":
		switch v.Kind {
		case KInt:
			return Int(-v.I)
		case KFloat:
			return Float(-v.F)
		}
		return Err("minus of")
	case "~", "^":
		if v.Kind == KInt {
			return Int(^v.I)
		}
		return Err("bitwise not of")
	case "+":
		return v
	}
	return Err("unknown prefix")
}

func (in *Interp) assignNode(n *Node, f *Frame) Value {
	val := in.ev(n.K[1], f)
	if val.IsErr() {
		return val
	}
	t := n.K[0]
	switch t.Kind {
	case NIdent:
		if t.Name == ".." || t.Name == "self" || t.Name == "info" {
			return in.unsup("assignment to " + t.Name)
		}
		if extNames[t.Name] {
			return Err("attempt to change internal function")
		}
		return in.assign(f, t.Name, val, n.S == ":=")
	case NIndex, NDot:
		obj := t.K[0]
		if obj.Kind != NIdent {
			return Err("index assignment to non identifier")
		}
		var idx Value
		if t.Kind == NDot {
			idx = Str(t.Name)
		} else {
			idx = in.ev(t.K[1], f)
			// (the implementation does not check the index for being an error before using it: an error index is
			// reported as a bad index; either way the assignment fails)
			if idx.IsErr() {
				return idx
			}
		}
		cur, _, ok := f.lookup(obj.Name)
		if !ok {
			return Err("identifier not found: " + obj.Name)
		}
		switch cur.Kind {
		case KArray:
			if idx.Kind != KInt {
				return Err("index assignment to array with non integer index")
			}
			i := idx.I
			if i < 0 {
				i += int64(len(cur.A))
			}
			if i < 0 || i >= int64(len(cur.A)) {
				return Err("index assignment out of bounds")
			}
			na := make([]Value, len(cur.A))
			copy(na, cur.A)
			na[i] = Copy(val)
			if r := in.assign(f, obj.Name, Value{Kind: KArray, A: na}, false); r.IsErr() {
				return r
			}
			return val
		case KMap:
			if r := in.assign(f, obj.Name, MapSet(cur, idx, Copy(val)), false); r.IsErr() {
				return r
			}
			return val
		}
		return Err("index assignment to unexpected type")
	}
	return Err("assignment to non identifier")
}

func numF(v Value) (float64, bool) {
	switch v.Kind {
	case KInt:
		return float64(v.I), true
	case KFloat:
		return v.F, true
	}
	return 0, false
}

func (in *Interp) infix(n *Node, f *Frame) Value {
	if n.K[1] == nil {
		return Err("missing right operand")
	}
	l := in.ev(n.K[0], f)
	if l.IsErr() {
		return l
	}
	op := n.S
	if op == "&&" && l.Kind == KBool && !l.B {
		return Bool(false)
	}
	if op == "||" && l.Kind == KBool && l.B {
		return Bool(true)
	}
	if op == "|" && l.Kind == KString && n.K[1].Kind == NCall {
		return in.unsup("pipe operator")
	}
	r := in.ev(n.K[1], f)
	if r.IsErr() {
		return r
	}
	if hasCaughtMsg(l) || hasCaughtMsg(r) {
		in.unsup("operating on the message of a caught error")
	}
	res := Binary(op, l, r)
	if res.IsErr() && strings.HasPrefix(res.S, "unsupported") {
		in.unsup(res.S)
	}
	return res
}

// Binary applies a binary operator to two values (exported for the operand-value family of C01).
func Binary(op string, l, r Value) Value {
	switch op {
	case "<", ">", "<=", ">=":
		if containsFunc(l) || containsFunc(r) {
			// functions have no documented order (C12 checks that whatever order there is, is coherent)
			return Err("unsupported: ordering functions")
		}
	}
	switch op {
	case "==", "!=":
		if l.Kind == KFunc && r.Kind == KFunc && l.Fn != r.Fn && l.Fn != nil && r.Fn != nil && (nodesHaveFunc(l.Fn.Body) || nodesHaveFunc(r.Fn.Body)) {
			// two different function values whose bodies hold function literals: the implementation compares printed
			// texts, in which a nested `func() { }` and `() => { }` differ; there is no documented equality to model
			return Err("unsupported: equality of functions holding function literals")
		}
	}
	switch op {
	case "==":
		return Bool(Equal(l, r))
	case "!=":
		return Bool(!Equal(l, r))
	case "<":
		return Bool(Cmp(l, r) < 0)
	case ">":
		return Bool(Cmp(l, r) > 0)
	case "<=":
		return Bool(Cmp(l, r) <= 0)
	case ">=":
		return Bool(Cmp(l, r) >= 0)
	case "&&":
		return Bool(l.Kind == KBool && l.B && r.Kind == KBool && r.B)
	case "||":
		return Bool((l.Kind == KBool && l.B) || (r.Kind == KBool && r.B))
	}
	if l.Kind == KInt && r.Kind == KInt {
		a, b := l.I, r.I
		switch op {
		case "+":
			return Int(a + b)
		case "-":
			return Int(a - b)
		case "*":
			return Int(a * b)
		case "/":
			if b == 0 {
				return Err("division by zero")
			}
			if a == math.MinInt64 && b == -1 {
				return Int(math.MinInt64)
			}
			return Int(a / b)
		case "%":
			if b == 0 {
				return Err("modulo by zero")
			}
			if b == -1 {
				return Int(0)
			}
			return Int(a % b)
		case "<<":
			if b < 0 {
				return Err("negative shift count")
			}
			if b >= 64 {
				return Int(0)
			}
			return Int(a << uint(b))
		case ">>":
			if b < 0 {
				return Err("negative shift count")
			}
			if b >= 64 {
				return Int(0)
			}
			return Int(int64(uint64(a) >> uint(b)))
		case "&":
			return Int(a & b)
		case "|":
			return Int(a | b)
		case "^":
			return Int(a ^ b)
		case ":":
			if b < a {
				return Err("range index invalid")
			}
			if b-a > 100000 || b-a < 0 {
				return Err("unsupported: huge range")
			}
			out := make([]Value, 0, b-a)
			for i := a; i < b; i++ {
				out = append(out, Int(i))
			}
			return Value{Kind: KArray, A: out}
		}
		return Err("unknown operator")
	}
	if l.Kind == KFloat || r.Kind == KFloat {
		a, ok1 := numF(l)
		b, ok2 := numF(r)
		if !ok1 || !ok2 {
			return Err("not converting to float")
		}
		switch op {
		case "+":
			return Float(a + b)
		case "-":
			return Float(a - b)
		case "*":
			return Float(a * b)
		case "/":
			return Float(a / b)
		case "%":
			return Float(math.Mod(a, b))
		}
		return Err("unknown operator")
	}
	switch l.Kind {
	case KString:
		if op == "+" && r.Kind == KString {
			return Str(l.S + r.S)
		}
		if op == "*" && r.Kind == KInt {
			if r.I < 0 {
				return Err("right operand of * on strings must be positive")
			}
			if r.I > 1<<20 || int64(len(l.S))*r.I > 1<<20 {
				return Err("unsupported: huge string")
			}
			return Str(strings.Repeat(l.S, int(r.I)))
		}
		return Err("unknown operator on string")
	case KArray:
		switch op {
		case "*":
			if r.Kind != KInt {
				return Err("right operand of * on arrays must be an integer")
			}
			if r.I < 0 {
				return Err("right operand of * on arrays must be positive")
			}
			if r.I > 1<<18 || int64(len(l.A))*r.I > 1<<18 {
				return Err("unsupported: huge array")
			}
			out := make([]Value, 0, len(l.A)*int(r.I))
			for i := int64(0); i < r.I; i++ {
				out = append(out, l.A...)
			}
			return Value{Kind: KArray, A: out}
		case "+":
			out := make([]Value, 0, len(l.A)+1)
			out = append(out, l.A...)
			if r.Kind == KArray {
				out = append(out, r.A...)
			} else {
				out = append(out, r)
			}
			return Value{Kind: KArray, A: out}
		}
		return Err("unknown operator on array")
	case KMap:
		if r.Kind == KMap && op == "+" {
			return MapAppend(l, r)
		}
		if r.Kind == KMap {
			return Err("unknown operator on map")
		}
	}
	return Err("no such operator on these operands")
}

func index(l, idx Value) Value {
	isInt := idx.Kind == KInt
	i := idx.I
	if idx.Kind == KNil {
		isInt, i = true, 0
	}
	switch {
	case l.Kind == KString && isInt:
		if i < 0 {
			i += int64(len(l.S))
		}
		if i < 0 || i >= int64(len(l.S)) {
			return Nil
		}
		return Int(int64(l.S[i]))
	case l.Kind == KArray && isInt:
		if i < 0 {
			i += int64(len(l.A))
		}
		if i < 0 || i >= int64(len(l.A)) {
			return Nil
		}
		return l.A[i]
	case l.Kind == KMap:
		v, _ := MapGet(l, idx)
		return v
	case l.Kind == KNil:
		return Nil
	}
	return Err("index operator not supported")
}

func length(v Value) int {
	switch v.Kind {
	case KString:
		return len(v.S)
	case KArray:
		return len(v.A)
	case KMap:
		return len(v.M)
	case KNil:
		return 0
	}
	return -1
}

func (in *Interp) slice(n *Node, f *Frame) Value {
	l := in.ev(n.K[0], f)
	if l.IsErr() {
		return l
	}
	lo := in.ev(n.K[1], f)
	if lo.IsErr() {
		return lo
	}
	var hi Value
	open := n.K[2] == nil
	if !open {
		hi = in.ev(n.K[2], f)
		if hi.IsErr() {
			return hi
		}
	}
	if lo.Kind != KInt || (!open && hi.Kind != KInt) {
		return Err("range index not integer")
	}
	num := int64(length(l))
	if num < 0 {
		return Err("range index operator not supported")
	}
	a := lo.I
	if a < 0 {
		a += num
	}
	b := num
	if !open {
		b = hi.I
		if b < 0 {
			b += num
		}
	}
	if a > b {
		return Err("range index invalid: left greater than right")
	}
	clamp := func(x int64) int64 {
		if x < 0 {
			return 0
		}
		if x > num {
			return num
		}
		return x
	}
	a, b = clamp(a), clamp(b)
	switch l.Kind {
	case KString:
		return Str(l.S[a:b])
	case KArray:
		return Value{Kind: KArray, A: append([]Value{}, l.A[a:b]...)}
	case KMap:
		return Value{Kind: KMap, M: append([]Pair{}, l.M[a:b]...)}
	case KNil:
		return Nil
	}
	return Err("range index operator not supported")
}

func (in *Interp) call(n *Node, f *Frame) Value {
	callee := in.ev(n.K[0], f)
	if callee.IsErr() {
		return callee
	}
	args := make([]Value, 0, len(n.K)-1)
	for _, a := range n.K[1:] {
		v := in.evArg(a, f)
		if v.IsErr() {
			return v
		}
		args = append(args, Copy(v))
	}
	if callee.Kind != KFunc || callee.Fn == nil {
		return Err("not a function")
	}
	return in.apply(callee.Fn, args, f)
}

func (in *Interp) apply(fn *Closure, args []Value, caller *Frame) Value {
	in.Depth++
	defer func() { in.Depth-- }()
	if in.Depth > in.MaxDepth {
		return in.unsup("recursion depth")
	}
	outer := fn.Env
	// a recursive call of the function currently executing sees the caller's frame (issue #47)
	// (the same function: same text and same definition frame - two closures made by one factory are two functions)
	if caller.Fn != nil && caller.Fn.Text == fn.Text && caller.Fn.Env == fn.Env {
		outer = caller
	}
	fr := &Frame{Vars: map[string]Value{}, Outer: outer, Fn: fn}
	params := fn.Params
	if fn.Variadic {
		np := len(params) - 1
		params = params[:np]
		if len(args) > 0 && args[len(args)-1].Kind == KArray {
			last := args[len(args)-1]
			args = append(append([]Value{}, args[:len(args)-1]...), last.A...)
		}
		var extra []Value
		if len(args) >= np {
			extra = args[np:]
			args = args[:np]
		}
		if len(args) != np {
			return Err("wrong number of arguments")
		}
		fr.Vars[".."] = Value{Kind: KArray, A: append([]Value{}, extra...)}
	} else if len(args) != len(params) {
		return Err("wrong number of arguments")
	}
	for i, p := range params {
		if isUpper(p) {
			if old, _, ok := fr.lookup(p); ok && !Equal(old, args[i]) {
				return Err("attempt to change constant " + p)
			}
		}
		if extNames[p] {
			return Err("attempt to change internal function")
		}
		fr.Vars[p] = args[i]
	}
	v, c := in.block(fn.Body, fr)
	if c == cBreak || c == cContinue {
		return Err("unexpected control type outside of for loops")
	}
	return v
}

func (in *Interp) forLoop(n *Node, f *Frame) (Value, ctl) {
	cond := n.K[0]
	var last Value = Nil
	var pre *Value // the right-hand side of `for v = rhs` already evaluated while finding out the loop form
	preName := ""
	// run one iteration of the body; returns (stop?, value, ctl)
	body := func() (bool, Value, ctl) {
		v, c := in.block(n.Body, f)
		if v.IsErr() {
			return true, v, cNone
		}
		switch c {
		case cBreak:
			return true, last, cNone
		case cContinue:
			return false, last, cNone
		case cReturn:
			return true, v, cReturn
		}
		last = v
		return false, v, cNone
	}
	counted := func(name string, from, to int64) (Value, ctl) {
		if to < from {
			return Err("for loop with negative count"), cNone
		}
		if to-from > 100000 {
			return in.unsup("huge loop"), cNone
		}
		for i := from; i < to; i++ {
			if name != "" {
				if r := in.assign(f, name, Int(i), false); r.IsErr() {
					// the implementation ignores a failed assignment of the loop variable (constant name)
					_ = r
				}
			}
			stop, v, c := body()
			if stop {
				return v, c
			}
		}
		return last, cNone
	}
	if cond.Kind == NAssign {
		t := cond.K[0]
		if t.Kind != NIdent {
			return Err("for var = ... not a var"), cNone
		}
		rhs := cond.K[1]
		if rhs.Kind == NInfix && rhs.S == ":" && rhs.K[1] != nil {
			a := in.ev(rhs.K[0], f)
			if a.IsErr() || a.Kind != KInt {
				return Err("for var = n:m n not an integer"), cNone
			}
			b := in.ev(rhs.K[1], f)
			if b.IsErr() || b.Kind != KInt {
				return Err("for var = n:m m not an integer"), cNone
			}
			return counted(t.Name, a.I, b.I)
		}
		v := in.ev(rhs, f)
		switch v.Kind {
		case KError:
			return v, cNone
		case KInt:
			return counted(t.Name, 0, v.I)
		case KArray:
			for _, e := range v.A {
				in.assign(f, t.Name, e, false)
				stop, r, c := body()
				if stop {
					return r, c
				}
			}
			return last, cNone
		case KMap:
			for _, p := range v.M {
				in.assign(f, t.Name, NewMap(Pair{Str("key"), p.K}, Pair{Str("value"), p.V}), false)
				stop, r, c := body()
				if stop {
					return r, c
				}
			}
			return last, cNone
		case KString:
			s := v.S
			for len(s) > 0 {
				_, sz := utf8.DecodeRuneInString(s)
				ch := s[:sz]
				if !utf8.ValidString(ch) {
					return in.unsup("non-utf8 string iteration"), cNone
				}
				s = s[sz:]
				in.assign(f, t.Name, Str(ch), false)
				stop, r, c := body()
				if stop {
					return r, c
				}
			}
			return last, cNone
		}
		// anything else: the assignment is an ordinary condition expression, evaluated once per test of the condition
		// (the value just computed is the first one: the right-hand side is not evaluated a second time - the
		// implementation does, known finding C01-K1)
		pre = &v
		preName = t.Name
	}
	for iter := 0; ; iter++ {
		if iter > 100000 {
			return in.unsup("long loop"), cNone
		}
		var c Value
		if iter == 0 && pre != nil {
			if r := in.assign(f, preName, *pre, false); r.IsErr() {
				return r, cNone
			}
			c = *pre
		} else {
			c = in.ev(cond, f)
		}
		switch {
		case c.IsErr():
			return c, cNone
		case c.Kind == KBool && c.B:
			stop, v, ct := body()
			if stop {
				return v, ct
			}
		case c.Kind == KBool || c.Kind == KNil:
			return last, cNone
		case c.Kind == KInt:
			return counted("", 0, c.I)
		default:
			return Err("for condition is not a boolean nor integer"), cNone
		}
	}
}

// caughtMsg stands for the message of a caught error: its wording is not part of the reference semantics, so a
// program is only comparable as long as it does not look at it (printing, comparing, measuring, returning it).
const caughtMsg = "\x00caught-error-message\x00"

func hasCaughtMsg(v Value) bool {
	switch v.Kind {
	case KString:
		return strings.Contains(v.S, caughtMsg)
	case KArray:
		for _, e := range v.A {
			if hasCaughtMsg(e) {
				return true
			}
		}
	case KMap:
		for _, p := range v.M {
			if hasCaughtMsg(p.K) || hasCaughtMsg(p.V) {
				return true
			}
		}
	}
	return false
}

func containsFunc(v Value) bool {
	switch v.Kind {
	case KFunc:
		return true
	case KArray:
		for _, e := range v.A {
			if containsFunc(e) {
				return true
			}
		}
	case KMap:
		for _, p := range v.M {
			if containsFunc(p.K) || containsFunc(p.V) {
				return true
			}
		}
	}
	return false
}

func printable(v Value) string {
	if v.Kind == KString {
		return v.S
	}
	if v.Kind == KFunc {
		return "<func>"
	}
	return Inspect(v)
}

func (in *Interp) builtin(n *Node, f *Frame) Value {
	name := n.S
	minArgs, varArg := 1, false
	switch name {
	case "print", "error":
		varArg = true
	case "println":
		minArgs, varArg = 0, true
	}
	if (varArg && len(n.K) < minArgs) || (!varArg && len(n.K) != minArgs) {
		return Err(name + ": wrong number of arguments")
	}
	switch name {
	case "del":
		return in.del(n.K[0], f)
	case "print", "println", "error":
		var parts []string
		for _, a := range n.K {
			v, c := in.eval(a, f)
			_ = c
			if v.IsErr() {
				return v
			}
			if containsFunc(v) {
				in.unsup("printing a function")
			}
			if hasCaughtMsg(v) {
				in.unsup("printing the message of a caught error (wording is unspecified)")
			}
			parts = append(parts, printable(v))
		}
		s := strings.Join(parts, " ")
		if name == "error" {
			return Err(s)
		}
		if name == "println" {
			s += "\n"
		}
		in.Out.WriteString(s)
		return Nil
	}
	v, _ := in.eval(n.K[0], f)
	if name != "catch" && hasCaughtMsg(v) {
		in.unsup("using the message of a caught error")
	}
	if name == "catch" {
		if v.IsErr() {
			if strings.HasPrefix(v.S, "unsupported") {
				return v
			}
			return NewMap(Pair{Str("err"), Bool(true)}, Pair{Str("value"), Str(caughtMsg)})
		}
		return NewMap(Pair{Str("err"), Bool(false)}, Pair{Str("value"), v})
	}
	if v.IsErr() {
		return v
	}
	switch name {
	case "len":
		l := length(v)
		if l < 0 {
			return Err("len: not supported")
		}
		return Int(int64(l))
	case "first":
		switch v.Kind {
		case KNil:
			return Nil
		case KArray:
			if len(v.A) == 0 {
				return Nil
			}
			return v.A[0]
		case KMap:
			if len(v.M) == 0 {
				return Nil
			}
			return NewMap(Pair{Str("key"), v.M[0].K}, Pair{Str("value"), v.M[0].V})
		case KString:
			if v.S == "" {
				return Nil
			}
			if !utf8.ValidString(v.S) {
				return in.unsup("first of non-utf8 string")
			}
			_, sz := utf8.DecodeRuneInString(v.S)
			return Str(v.S[:sz])
		case KFunc:
			return in.unsup("first of function")
		}
		return Err("first() not supported")
	case "rest":
		switch v.Kind {
		case KNil:
			return Nil
		case KArray:
			if len(v.A) <= 1 {
				return Nil
			}
			return Value{Kind: KArray, A: append([]Value{}, v.A[1:]...)}
		case KMap:
			if len(v.M) <= 1 {
				return Nil
			}
			return Value{Kind: KMap, M: append([]Pair{}, v.M[1:]...)}
		case KString:
			if len(v.S) <= 1 {
				return Nil
			}
			if !utf8.ValidString(v.S) {
				return in.unsup("rest of non-utf8 string")
			}
			_, sz := utf8.DecodeRuneInString(v.S)
			return Str(v.S[sz:])
		case KFunc:
			return in.unsup("rest of function")
		}
		return Err("rest() not supported")
	}
	return in.unsup("builtin " + name)
}

func (in *Interp) del(t *Node, f *Frame) Value {
	switch t.Kind {
	case NIdent:
		for e := f; e != nil; e = e.Outer {
			if _, ok := e.Vars[t.Name]; ok {
				if e != f {
					// what del() of an outer variable from inside a function means is not documented
					return in.unsup("del of a non-local variable")
				}
				delete(e.Vars, t.Name)
				return Bool(true)
			}
		}
		return Bool(false)
	case NSlice:
		// not deletable, but its bounds are evaluated first
		for _, b := range t.K[1:] {
			if b != nil {
				if v := in.ev(b, f); v.IsErr() {
					return v
				}
			}
		}
		return Err("delete not supported")
	case NIndex, NDot:
		obj := t.K[0]
		var idx Value
		if t.Kind == NDot {
			idx = Str(t.Name)
		} else {
			idx = in.ev(t.K[1], f) // (the index is evaluated before the target is looked at)
			if idx.IsErr() {
				return idx
			}
		}
		if obj.Kind != NIdent {
			return Err("delete index on non identifier")
		}
		cur, _, ok := f.lookup(obj.Name)
		if !ok {
			return Bool(false)
		}
		if cur.Kind != KMap {
			return Err("delete index on non map")
		}
		nm, found := MapDelete(cur, idx)
		if !found {
			return Bool(false)
		}
		if r := in.assign(f, obj.Name, nm, false); r.IsErr() {
			return r
		}
		return Bool(true)
	}
	return Err("delete not supported")
}
