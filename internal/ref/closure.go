package ref

// Closure is a function value of the reference evaluator (see eval.go).
type Closure struct {
	Name     string
	Params   []string
	Variadic bool
	Body     *Node
	Env      *Frame
	Text     string
}
