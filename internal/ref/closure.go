package ref

// Closure is a function value of the reference evaluator.
type Closure struct {
	Name     string
	Params   []string
	Variadic bool
	Body     []*Node
	Env      *Frame
	Text     string // canonical text of parameters+body: two closures with equal Text are "the same function"
}
