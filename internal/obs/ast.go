package obs

import (
	"fmt"
	"math"
	"reflect"
	"strconv"
	"strings"

	"grol.io/grol/ast"
	"grol.io/grol/object"
	"grol.io/grol/token"
)

// DumpOpt selects what the canonical tree dump includes.
type DumpOpt struct {
	DropComments  bool // compact mode omits comments by design
	CommentFlags  bool // include SameLineAsPrevious/SameLineAsNext
	NormLambda    bool // an unnamed func and a => lambda are the same function (C14)
	NumbersByText bool // compare number literals by spelling instead of value
	FlattenPlus   bool // dump chains of + as one n-ary node (used only to classify the known a+(b+c) regrouping)
}

// DumpAST is the harness's own canonical structural dump of a syntax tree: a type switch over
// the exported fields of every node type (deliberately not ast.DebugString, which is the
// printer under test). A missing child is written as <nil:Parent.Field>.
func DumpAST(n ast.Node, opt DumpOpt) string {
	var sb strings.Builder
	d := dumper{sb: &sb, opt: opt}
	d.node(n, "root", "")
	return sb.String()
}

type dumper struct {
	sb  *strings.Builder
	opt DumpOpt
	depth int
}

func isNilNode(n ast.Node) bool {
	if n == nil {
		return true
	}
	v := reflect.ValueOf(n)
	return v.Kind() == reflect.Ptr && v.IsNil()
}

func (d *dumper) tok(t *token.Token) {
	if t == nil {
		d.sb.WriteString(" tok:<nil>")
		return
	}
	d.sb.WriteString(" " + t.Type().String() + ":" + strconv.Quote(t.Literal()))
}

func (d *dumper) list(ns []ast.Node, parent, field string) {
	d.sb.WriteString(" [")
	first := true
	for _, c := range ns {
		if d.opt.DropComments {
			if _, ok := c.(*ast.Comment); ok {
				continue
			}
		}
		if !first {
			d.sb.WriteByte(' ')
		}
		first = false
		d.node(c, parent, field)
	}
	d.sb.WriteString("]")
}

func (d *dumper) stmts(s *ast.Statements, parent, field string) {
	if s == nil {
		d.sb.WriteString("<nil:" + parent + "." + field + ">")
		return
	}
	d.sb.WriteString("(Statements")
	if s.Statements == nil {
		d.sb.WriteString(" <nil:Statements.Statements>")
	} else {
		d.list(s.Statements, "Statements", "Statements")
	}
	d.sb.WriteString(")")
}

func (d *dumper) node(n ast.Node, parent, field string) {
	if isNilNode(n) {
		d.sb.WriteString("<nil:" + parent + "." + field + ">")
		return
	}
	d.depth++
	defer func() { d.depth-- }()
	if d.depth > 5000 {
		d.sb.WriteString("<too-deep>")
		return
	}
	switch v := n.(type) {
	case *ast.Statements:
		d.stmts(v, parent, field)
	case ast.Statements:
		d.stmts(&v, parent, field)
	case *ast.Identifier:
		d.sb.WriteString("(Identifier")
		d.tok(v.Token)
		d.sb.WriteString(")")
	case ast.Identifier:
		d.sb.WriteString("(Identifier")
		d.tok(v.Token)
		d.sb.WriteString(")")
	case *ast.IntegerLiteral:
		d.intLit(v)
	case ast.IntegerLiteral:
		d.intLit(&v)
	case *ast.FloatLiteral:
		d.floatLit(v)
	case ast.FloatLiteral:
		d.floatLit(&v)
	case *ast.StringLiteral:
		d.sb.WriteString("(String")
		d.tok(v.Token)
		d.sb.WriteString(")")
	case ast.StringLiteral:
		d.sb.WriteString("(String")
		d.tok(v.Token)
		d.sb.WriteString(")")
	case *ast.Boolean:
		d.sb.WriteString(fmt.Sprintf("(Boolean %v", v.Val))
		d.tok(v.Token)
		d.sb.WriteString(")")
	case ast.Boolean:
		d.sb.WriteString(fmt.Sprintf("(Boolean %v", v.Val))
		d.tok(v.Token)
		d.sb.WriteString(")")
	case *ast.Comment:
		d.sb.WriteString("(Comment")
		d.tok(v.Token)
		if d.opt.CommentFlags {
			d.sb.WriteString(fmt.Sprintf(" prev=%v next=%v", v.SameLineAsPrevious, v.SameLineAsNext))
		}
		d.sb.WriteString(")")
	case *ast.PrefixExpression:
		d.sb.WriteString("(Prefix")
		d.tok(v.Token)
		d.sb.WriteByte(' ')
		d.node(v.Right, "Prefix", "Right")
		d.sb.WriteString(")")
	case *ast.PostfixExpression:
		d.sb.WriteString("(Postfix")
		d.tok(v.Token)
		d.sb.WriteString(" prev")
		d.tok(v.Prev)
		d.sb.WriteString(")")
	case *ast.InfixExpression:
		if d.opt.FlattenPlus && v.Token != nil && v.Token.Type() == token.PLUS {
			d.sb.WriteString("(PlusChain")
			var flat func(n ast.Node)
			flat = func(n ast.Node) {
				if in, ok := n.(*ast.InfixExpression); ok && in.Token != nil && in.Token.Type() == token.PLUS {
					flat(in.Left)
					flat(in.Right)
					return
				}
				d.sb.WriteByte(' ')
				d.node(n, "Infix", "Operand")
			}
			flat(v)
			d.sb.WriteString(")")
			return
		}
		d.sb.WriteString("(Infix")
		d.tok(v.Token)
		d.sb.WriteByte(' ')
		d.node(v.Left, "Infix", "Left")
		d.sb.WriteByte(' ')
		f := "Right"
		if v.Token != nil && v.Token.Type() == token.COLON {
			f = "ColonRight"
		}
		d.node(v.Right, "Infix", f)
		d.sb.WriteString(")")
	case *ast.IfExpression:
		d.sb.WriteString("(If")
		d.tok(v.Token)
		d.sb.WriteByte(' ')
		d.node(v.Condition, "If", "Condition")
		d.sb.WriteByte(' ')
		d.stmts(v.Consequence, "If", "Consequence")
		d.sb.WriteByte(' ')
		d.stmts(v.Alternative, "If", "Alternative")
		d.sb.WriteString(")")
	case *ast.ForExpression:
		d.sb.WriteString("(For")
		d.tok(v.Token)
		d.sb.WriteByte(' ')
		d.node(v.Condition, "For", "Condition")
		d.sb.WriteByte(' ')
		d.stmts(v.Body, "For", "Body")
		d.sb.WriteString(")")
	case *ast.ControlExpression:
		d.sb.WriteString("(Control")
		d.tok(v.Token)
		d.sb.WriteString(")")
	case *ast.ReturnStatement:
		d.sb.WriteString("(Return")
		d.tok(v.Token)
		d.sb.WriteByte(' ')
		d.node(v.ReturnValue, "Return", "ReturnValue")
		d.sb.WriteString(")")
	case *ast.Builtin:
		d.sb.WriteString("(Builtin")
		d.tok(v.Token)
		if v.Parameters == nil {
			d.sb.WriteString(" <nil:Builtin.Parameters>")
		} else {
			d.list(v.Parameters, "Builtin", "Parameters")
		}
		d.sb.WriteString(")")
	case ast.Builtin:
		d.sb.WriteString("(Builtin")
		d.tok(v.Token)
		d.list(v.Parameters, "Builtin", "Parameters")
		d.sb.WriteString(")")
	case *ast.FunctionLiteral:
		d.sb.WriteString("(Function")
		if d.opt.NormLambda {
			lam := v.IsLambda || v.Name == nil
			d.sb.WriteString(fmt.Sprintf(" lambda=%v", lam))
		} else {
			d.tok(v.Token)
			d.sb.WriteString(fmt.Sprintf(" lambda=%v", v.IsLambda))
		}
		d.sb.WriteString(fmt.Sprintf(" variadic=%v name=", v.Variadic))
		if v.Name == nil {
			d.sb.WriteString("<nil:Function.Name>")
		} else {
			d.node(v.Name, "Function", "Name")
		}
		if v.Parameters == nil && !v.IsLambda {
			d.sb.WriteString(" <nil:Function.Parameters>")
		} else {
			d.list(v.Parameters, "Function", "Parameters")
		}
		d.sb.WriteByte(' ')
		d.stmts(v.Body, "Function", "Body")
		d.sb.WriteString(")")
	case *ast.CallExpression:
		d.sb.WriteString("(Call ")
		d.node(v.Function, "Call", "Function")
		if v.Arguments == nil {
			d.sb.WriteString(" <nil:Call.Arguments>")
		} else {
			d.list(v.Arguments, "Call", "Arguments")
		}
		d.sb.WriteString(")")
	case *ast.ArrayLiteral:
		d.sb.WriteString("(Array")
		if v.Elements == nil {
			d.sb.WriteString(" <nil:Array.Elements>")
		} else {
			d.list(v.Elements, "Array", "Elements")
		}
		d.sb.WriteString(")")
	case *ast.IndexExpression:
		d.sb.WriteString("(Index")
		d.tok(v.Token)
		d.sb.WriteByte(' ')
		d.node(v.Left, "Index", "Left")
		d.sb.WriteByte(' ')
		d.node(v.Index, "Index", "Index")
		d.sb.WriteString(")")
	case *ast.MapLiteral:
		d.sb.WriteString("(Map")
		if len(v.Order) != len(v.Pairs) {
			// duplicate key nodes cannot happen (keys are distinct pointers), so this is a structural defect
			d.sb.WriteString(fmt.Sprintf(" <order/pairs mismatch %d/%d>", len(v.Order), len(v.Pairs)))
		}
		for _, k := range v.Order {
			d.sb.WriteString(" {")
			d.node(k, "Map", "Key")
			d.sb.WriteString(" : ")
			val, ok := v.Pairs[k]
			if !ok {
				d.sb.WriteString("<nil:Map.MissingPair>")
			} else {
				d.node(val, "Map", "Value")
			}
			d.sb.WriteString("}")
		}
		d.sb.WriteString(")")
	case *ast.MacroLiteral:
		d.sb.WriteString("(Macro")
		d.list(v.Parameters, "Macro", "Parameters")
		d.sb.WriteByte(' ')
		d.stmts(v.Body, "Macro", "Body")
		d.sb.WriteString(")")
	case *object.Register:
		d.sb.WriteString("(Register " + v.Literal() + ")")
	default:
		d.sb.WriteString(fmt.Sprintf("(?%T)", n))
	}
}

func (d *dumper) intLit(v *ast.IntegerLiteral) {
	if d.opt.NumbersByText {
		d.sb.WriteString("(Int")
		d.tok(v.Token)
		d.sb.WriteString(")")
		return
	}
	d.sb.WriteString("(Int " + strconv.FormatInt(v.Val, 10) + ")")
}

func (d *dumper) floatLit(v *ast.FloatLiteral) {
	if d.opt.NumbersByText {
		d.sb.WriteString("(Float")
		d.tok(v.Token)
		d.sb.WriteString(")")
		return
	}
	if math.IsNaN(v.Val) {
		d.sb.WriteString("(Float NaN)")
		return
	}
	d.sb.WriteString("(Float " + strconv.FormatUint(math.Float64bits(v.Val), 16) + ")")
}

// LegalNil reports whether a <nil:...> marker is one of the legal missing children.
func LegalNil(marker string) bool {
	switch marker {
	case "<nil:Return.ReturnValue>", "<nil:If.Alternative>", "<nil:Infix.ColonRight>", "<nil:Function.Name>":
		return true
	}
	return false
}

// IllegalNils lists the illegal <nil:…> markers of a dump.
func IllegalNils(dump string) []string {
	var out []string
	if strings.Contains(dump, "(?") {
		out = append(out, "unknown-node-type")
	}
	if strings.Contains(dump, "tok:<nil>") {
		out = append(out, "nil-token")
	}
	for {
		i := strings.Index(dump, "<nil:")
		if i < 0 {
			break
		}
		j := strings.IndexByte(dump[i:], '>')
		m := dump[i : i+j+1]
		if !LegalNil(m) {
			out = append(out, m)
		}
		dump = dump[i+j+1:]
	}
	return out
}
