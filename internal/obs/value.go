// Package obs turns grol objects and syntax trees into canonical dumps for comparison.
package obs

import (
	"fmt"
	"math"
	"strconv"
	"strings"

	"grol.io/grol/object"
	"verif/internal/ref"
)

// DumpValue is the type-tagged structural dump of a grol object (same format as ref.Dump).
// Map iteration uses First/Rest so that the iteration order is what a program would see.
func DumpValue(o object.Object) string {
	var sb strings.Builder
	dumpValue(&sb, o, 0)
	return sb.String()
}

func dumpValue(sb *strings.Builder, o object.Object, depth int) {
	if o == nil {
		sb.WriteString("<go-nil>")
		return
	}
	if depth > 50 {
		sb.WriteString("<deep>")
		return
	}
	switch v := o.(type) {
	case object.Reference:
		sb.WriteString("REF>")
		dumpValue(sb, v.ObjValue(), depth+1)
		return
	case *object.Register:
		sb.WriteString("REG>")
		dumpValue(sb, v.ObjValue(), depth+1)
		return
	}
	switch o.Type() {
	case object.INTEGER:
		sb.WriteString("I:" + strconv.FormatInt(o.(object.Integer).Value, 10))
	case object.FLOAT:
		f := o.(object.Float).Value
		if math.IsNaN(f) {
			sb.WriteString("F:NaN")
		} else {
			sb.WriteString("F:" + strconv.FormatUint(math.Float64bits(f), 16))
		}
	case object.BOOLEAN:
		if o.(object.Boolean).Value {
			sb.WriteString("B:t")
		} else {
			sb.WriteString("B:f")
		}
	case object.NIL:
		sb.WriteString("N")
	case object.STRING:
		sb.WriteString("S:" + strconv.Quote(o.(object.String).Value))
	case object.ARRAY:
		sb.WriteString("A[")
		for i, e := range object.Elements(o) {
			if i > 0 {
				sb.WriteByte(',')
			}
			dumpValue(sb, e, depth+1)
		}
		sb.WriteByte(']')
	case object.MAP:
		sb.WriteString("M{")
		m, ok := o.(object.Map)
		if !ok {
			sb.WriteString("<not-a-Map:" + fmt.Sprintf("%T", o) + ">}")
			return
		}
		// iterate by First/Rest like a program does, bounded by Len
		var cur object.Object = m
		for i := 0; i < m.Len()+1; i++ {
			cm, ok := cur.(object.Map)
			if !ok || cm.Len() == 0 {
				break
			}
			if i > 0 {
				sb.WriteByte(',')
			}
			f := cm.First()
			fm, ok := f.(object.Map)
			if !ok {
				sb.WriteString("<first:" + fmt.Sprintf("%T", f) + ">")
				break
			}
			k, _ := fm.Get(object.KeyKey)
			val, _ := fm.Get(object.ValueKey)
			dumpValue(sb, k, depth+1)
			sb.WriteByte('=')
			dumpValue(sb, val, depth+1)
			cur = object.Rest(cm)
		}
		sb.WriteByte('}')
	case object.FUNC:
		sb.WriteString("FN")
	case object.ERROR:
		sb.WriteString("E")
	case object.EXTENSION:
		sb.WriteString("EXT(" + o.(object.Extension).Name + ")")
	case object.QUOTE:
		sb.WriteString("Q(" + o.Inspect() + ")")
	case object.MACRO:
		sb.WriteString("MACRO")
	case object.RETURN:
		sb.WriteString("RET>")
		dumpValue(sb, o.(object.ReturnValue).Value, depth+1)
	default:
		sb.WriteString("?" + o.Type().String())
	}
}

// ToObject builds the grol object for a reference value through the public object API
// (maps by NewMapSize+Set in the reference's key order).
func ToObject(v ref.Value) object.Object {
	switch v.Kind {
	case ref.KInt:
		return object.Integer{Value: v.I}
	case ref.KFloat:
		return object.Float{Value: v.F}
	case ref.KBool:
		return object.NativeBoolToBooleanObject(v.B)
	case ref.KNil:
		return object.NULL
	case ref.KString:
		return object.String{Value: v.S}
	case ref.KArray:
		els := make([]object.Object, len(v.A))
		for i := range v.A {
			els[i] = ToObject(v.A[i])
		}
		return object.NewArray(els)
	case ref.KMap:
		m := object.NewMapSize(len(v.M))
		for _, p := range v.M {
			m = m.Set(ToObject(p.K), ToObject(p.V))
		}
		return m
	}
	panic("ToObject: unsupported kind")
}
