// Package gen holds the bounded-exhaustive generators: G-syn (untyped syntactic grammar, shared by
// C02, C03, C07, C08, C13, C14, C15) and the typed program grammars used with the reference evaluator.
package gen

import (
	"strings"
)

type Kind int

const (
	Leaf Kind = iota
	Prefix
	Postfix
	Infix
	Call
	Index
	Slice
	SliceOpen
	Dot
	Array
	Map
	Func
	Lambda // S: "x=>e", "x=>{}", "()=>e", "(a,b)=>e", "(a,b)=>{}" variants selected by S
	Macro
	If
	IfElse
	IfElseIf
	For
	Builtin
	Return
	ReturnVal
	Break
	Continue
	Comment
)

// N is a syntax tree of G-syn.
type N struct {
	K    Kind
	S    string // operator / leaf text / name / variant
	Kids []*N
	Body []*N // statements of a block (Func, Lambda-with-block, Macro, If, For); Else for IfElse in Body2
	Else []*N
}

// Policy selects how a tree is rendered to text.
type Policy struct {
	FullParens bool   // wrap every compound sub-expression in parentheses
	StmtSep    string // "\n", ";", " ; " or " "
}

func (n *N) compound() bool {
	switch n.K {
	case Leaf, Array, Map, Call, Index, Slice, SliceOpen, Dot, Builtin:
		return false
	}
	return true
}

func renderBlock(sb *strings.Builder, stmts []*N, p Policy) {
	sb.WriteString("{")
	for i, s := range stmts {
		if i > 0 {
			sb.WriteString(p.StmtSep)
		} else {
			sb.WriteString(" ")
		}
		s.render(sb, p, true)
	}
	sb.WriteString(" }")
}

func (n *N) sub(sb *strings.Builder, p Policy) {
	if p.FullParens && n.compound() {
		sb.WriteString("(")
		n.render(sb, p, false)
		sb.WriteString(")")
		return
	}
	n.render(sb, p, false)
}

func (n *N) render(sb *strings.Builder, p Policy, stmt bool) {
	switch n.K {
	case Leaf:
		sb.WriteString(n.S)
	case Prefix:
		sb.WriteString(n.S)
		// avoid fusing "- -a" into "--a" and "+ +a" into "++a" in the source text we generate
		if k := n.Kids[0]; k.K == Prefix && !p.FullParens {
			sb.WriteString(" ")
		}
		n.Kids[0].sub(sb, p)
	case Postfix:
		sb.WriteString(n.Kids[0].S)
		sb.WriteString(n.S)
	case Infix:
		n.Kids[0].sub(sb, p)
		sb.WriteString(" " + n.S + " ")
		n.Kids[1].sub(sb, p)
	case Call:
		n.Kids[0].sub(sb, p)
		sb.WriteString("(")
		for i, a := range n.Kids[1:] {
			if i > 0 {
				sb.WriteString(", ")
			}
			a.render(sb, p, false)
		}
		sb.WriteString(")")
	case Index:
		n.Kids[0].sub(sb, p)
		sb.WriteString("[")
		n.Kids[1].render(sb, p, false)
		sb.WriteString("]")
	case Slice:
		n.Kids[0].sub(sb, p)
		sb.WriteString("[")
		n.Kids[1].sub(sb, p)
		sb.WriteString(":")
		n.Kids[2].sub(sb, p)
		sb.WriteString("]")
	case SliceOpen:
		n.Kids[0].sub(sb, p)
		sb.WriteString("[")
		n.Kids[1].sub(sb, p)
		sb.WriteString(":]")
	case Dot:
		n.Kids[0].sub(sb, p)
		sb.WriteString("." + n.S)
	case Array:
		sb.WriteString("[")
		for i, a := range n.Kids {
			if i > 0 {
				sb.WriteString(", ")
			}
			a.render(sb, p, false)
		}
		sb.WriteString("]")
	case Map:
		sb.WriteString("{")
		for i := 0; i+1 < len(n.Kids); i += 2 {
			if i > 0 {
				sb.WriteString(", ")
			}
			n.Kids[i].sub(sb, p)
			sb.WriteString(":")
			n.Kids[i+1].sub(sb, p)
		}
		sb.WriteString("}")
	case Func:
		// S = "name|params" e.g. "|a,b" or "f|a" or "|a,.."
		name, params, _ := strings.Cut(n.S, "|")
		sb.WriteString("func")
		if name != "" {
			sb.WriteString(" " + name)
		}
		sb.WriteString("(" + params + ") ")
		renderBlock(sb, n.Body, p)
	case Macro:
		sb.WriteString("macro(" + n.S + ") ")
		renderBlock(sb, n.Body, p)
	case Lambda:
		// S = params spelled as in source: "x", "()", "(a,b)", "(a,..)"; Body!=nil => block form, else Kids[0] expr
		sb.WriteString(n.S + " => ")
		if n.Body != nil {
			renderBlock(sb, n.Body, p)
		} else {
			n.Kids[0].sub(sb, p)
		}
	case If, IfElse, IfElseIf:
		sb.WriteString("if ")
		n.Kids[0].sub(sb, p)
		sb.WriteString(" ")
		renderBlock(sb, n.Body, p)
		if n.K == IfElse {
			sb.WriteString(" else ")
			renderBlock(sb, n.Else, p)
		}
		if n.K == IfElseIf {
			sb.WriteString(" else ")
			n.Else[0].render(sb, p, true)
		}
	case For:
		sb.WriteString("for ")
		n.Kids[0].sub(sb, p)
		sb.WriteString(" ")
		renderBlock(sb, n.Body, p)
	case Builtin:
		sb.WriteString(n.S + "(")
		for i, a := range n.Kids {
			if i > 0 {
				sb.WriteString(", ")
			}
			a.render(sb, p, false)
		}
		sb.WriteString(")")
	case Return:
		sb.WriteString("return")
	case ReturnVal:
		sb.WriteString("return ")
		n.Kids[0].render(sb, p, false)
	case Break:
		sb.WriteString("break")
	case Continue:
		sb.WriteString("continue")
	case Comment:
		sb.WriteString(n.S)
	}
}

// Render renders a program (statement list).
func Render(prog []*N, p Policy) string {
	var sb strings.Builder
	for i, s := range prog {
		if i > 0 {
			sb.WriteString(p.StmtSep)
		}
		s.render(&sb, p, true)
	}
	return sb.String()
}

// Cfg bounds the alphabets of the enumeration.
type Cfg struct {
	Leaves   []string
	Prefix   []string
	Infix    []string
	Builtins []string
	Stmts    bool // include statement-only forms (return/break/continue) inside blocks
	Rich     bool // include func/lambda/macro/if/for/call/index forms
}

var AllPrefix = []string{"-", "!", "+", "~", "^", "++", "--"}
var AllInfix = []string{"+", "-", "*", "/", "%", "==", "!=", "<", "<=", ">", ">=", "<<", ">>", "&", "|", "^", "&&", "||", "=", ":=", ":"}
var AllBuiltins = []string{"len", "first", "rest", "print", "println", "log", "error", "catch", "del", "quote", "unquote"}
var AllLeaves = []string{"a", "b", "1", "1.5", `"s"`, "true"}

func FullCfg() Cfg {
	return Cfg{Leaves: AllLeaves, Prefix: AllPrefix, Infix: AllInfix, Builtins: AllBuiltins, Stmts: true, Rich: true}
}

// ReducedCfg is the 20-construct set used for deeper trees.
func ReducedCfg() Cfg {
	return Cfg{Leaves: []string{"a", "1", `"s"`}, Prefix: []string{"-", "!", "++"}, Infix: []string{"+", "-", "*", "/", "==", "<", "&&", "=", ":"},
		Builtins: []string{"len", "println", "quote"}, Stmts: true, Rich: true}
}

func leaf(s string) *N { return &N{K: Leaf, S: s} }

// EnumExpr calls f with every expression tree of exactly `size` nodes. f returns false to stop.
func (c *Cfg) EnumExpr(size int, f func(*N) bool) bool {
	if size <= 0 {
		return true
	}
	if size == 1 {
		for _, l := range c.Leaves {
			if !f(leaf(l)) {
				return false
			}
		}
		if c.Rich {
			for _, n := range []*N{{K: Array}, {K: Map}, {K: Lambda, S: "()", Body: []*N{}}, {K: Func, S: "|", Body: []*N{}}} {
				if !f(n) {
					return false
				}
			}
		}
		return true
	}
	// unary: prefix
	for _, op := range c.Prefix {
		if !c.EnumExpr(size-1, func(k *N) bool { return f(&N{K: Prefix, S: op, Kids: []*N{k}}) }) {
			return false
		}
	}
	if size == 2 {
		for _, op := range []string{"++", "--"} {
			for _, id := range []string{"a"} {
				if !f(&N{K: Postfix, S: op, Kids: []*N{leaf(id)}}) {
					return false
				}
			}
		}
	}
	// binary: infix
	for _, op := range c.Infix {
		for ls := 1; ls <= size-2; ls++ {
			rs := size - 1 - ls
			ok := c.EnumExpr(ls, func(l *N) bool {
				return c.EnumExpr(rs, func(r *N) bool { return f(&N{K: Infix, S: op, Kids: []*N{l, r}}) })
			})
			if !ok {
				return false
			}
		}
	}
	if !c.Rich {
		return true
	}
	// one-child constructs: call with 0/1 args, index-dot, array1, builtin1, lambda x=>e, slice-open, grouped return etc.
	if !c.EnumExpr(size-1, func(k *N) bool {
		for _, n := range []*N{
			{K: Call, Kids: []*N{k}},
			{K: Dot, S: "k", Kids: []*N{k}},
			{K: Array, Kids: []*N{k}},
			{K: Lambda, S: "x", Kids: []*N{k}},
			{K: Lambda, S: "(a,b)", Kids: []*N{k}},
			{K: Lambda, S: "()", Kids: []*N{k}},
			{K: Lambda, S: "(a,..)", Kids: []*N{k}},
		} {
			if !f(n) {
				return false
			}
		}
		for _, b := range c.Builtins {
			if !f(&N{K: Builtin, S: b, Kids: []*N{k}}) {
				return false
			}
		}
		return true
	}) {
		return false
	}
	// two-child constructs
	for ls := 1; ls <= size-2; ls++ {
		rs := size - 1 - ls
		ok := c.EnumExpr(ls, func(l *N) bool {
			return c.EnumExpr(rs, func(r *N) bool {
				for _, n := range []*N{
					{K: Call, Kids: []*N{l, r}},
					{K: Index, Kids: []*N{l, r}},
					{K: SliceOpen, Kids: []*N{l, r}},
					{K: Array, Kids: []*N{l, r}},
					{K: Map, Kids: []*N{l, r}},
				} {
					if !f(n) {
						return false
					}
				}
				if len(c.Builtins) > 0 {
					if !f(&N{K: Builtin, S: "println", Kids: []*N{l, r}}) {
						return false
					}
				}
				return true
			})
		})
		if !ok {
			return false
		}
	}
	// three-child constructs: slice, call with 2 args
	if size >= 4 {
		for as := 1; as <= size-3; as++ {
			for bs := 1; bs <= size-2-as; bs++ {
				cs := size - 1 - as - bs
				ok := c.EnumExpr(as, func(a *N) bool {
					return c.EnumExpr(bs, func(b *N) bool {
						return c.EnumExpr(cs, func(d *N) bool {
							for _, n := range []*N{{K: Slice, Kids: []*N{a, b, d}}, {K: Call, Kids: []*N{a, b, d}}} {
								if !f(n) {
									return false
								}
							}
							return true
						})
					})
				})
				if !ok {
					return false
				}
			}
		}
	}
	// block constructs: cond/params + body statements
	for bodySize := 0; bodySize <= size-1; bodySize++ {
		condSize := size - 1 - bodySize
		ok := c.EnumStmts(bodySize, 2, func(body []*N) bool {
			if condSize == 0 {
				for _, n := range []*N{
					{K: Func, S: "|", Body: body}, {K: Func, S: "|a", Body: body}, {K: Func, S: "f|a,b", Body: body}, {K: Func, S: "|a,..", Body: body},
					{K: Lambda, S: "x", Body: body}, {K: Lambda, S: "(a,b)", Body: body}, {K: Macro, S: "x", Body: body},
				} {
					if bodySize == 0 && n.K == Func && n.S == "|" {
						continue // already produced at size 1
					}
					if !f(n) {
						return false
					}
				}
				return true
			}
			return c.EnumExpr(condSize, func(cond *N) bool {
				if !f(&N{K: If, Kids: []*N{cond}, Body: body}) {
					return false
				}
				if !f(&N{K: For, Kids: []*N{cond}, Body: body}) {
					return false
				}
				return true
			})
		})
		if !ok {
			return false
		}
	}
	// if/else and else-if: cond + then + else
	for condSize := 1; condSize <= size-1; condSize++ {
		for thenSize := 0; thenSize <= size-1-condSize; thenSize++ {
			elseSize := size - 1 - condSize - thenSize
			ok := c.EnumExpr(condSize, func(cond *N) bool {
				return c.EnumStmts(thenSize, 1, func(th []*N) bool {
					if !c.EnumStmts(elseSize, 1, func(el []*N) bool {
						return f(&N{K: IfElse, Kids: []*N{cond}, Body: th, Else: el})
					}) {
						return false
					}
					if elseSize >= 2 {
						// else if <cond2> {}
						return c.EnumExpr(elseSize-1, func(c2 *N) bool {
							return f(&N{K: IfElseIf, Kids: []*N{cond}, Body: th, Else: []*N{{K: If, Kids: []*N{c2}, Body: []*N{}}}})
						})
					}
					return true
				})
			})
			if !ok {
				return false
			}
		}
	}
	return true
}

// EnumStmt enumerates single statements of exactly `size` nodes.
func (c *Cfg) EnumStmt(size int, f func(*N) bool) bool {
	if !c.EnumExpr(size, f) {
		return false
	}
	if !c.Stmts {
		return true
	}
	if size == 1 {
		for _, n := range []*N{{K: Return}, {K: Break}, {K: Continue}} {
			if !f(n) {
				return false
			}
		}
	}
	if size >= 2 {
		if !c.EnumExpr(size-1, func(k *N) bool { return f(&N{K: ReturnVal, Kids: []*N{k}}) }) {
			return false
		}
	}
	return true
}

// EnumStmts enumerates statement lists with total size `size` and at most maxStmts statements.
func (c *Cfg) EnumStmts(size, maxStmts int, f func([]*N) bool) bool {
	if size == 0 {
		return f([]*N{})
	}
	if maxStmts == 0 {
		return true
	}
	for first := 1; first <= size; first++ {
		ok := c.EnumStmt(first, func(s *N) bool {
			if first == size {
				return f([]*N{s})
			}
			return c.EnumStmts(size-first, maxStmts-1, func(rest []*N) bool {
				return f(append([]*N{s}, rest...))
			})
		})
		if !ok {
			return false
		}
	}
	return true
}

// ControlWellFormed reports whether break/continue only occur (in statement position) inside a loop body of the same
// function, and return only inside a function body: the placements the language defines. A control statement nested
// in an operand (an array element, an argument, a condition) or outside its construct is outside the documented
// semantics.
func ControlWellFormed(prog []*N) bool {
	for _, n := range prog {
		if !n.controlOK(false, false, true) {
			return false
		}
	}
	return true
}

func (n *N) controlOK(inFunc, inLoop, stmtPos bool) bool {
	if n == nil {
		return true
	}
	switch n.K {
	case Return, ReturnVal:
		if !inFunc || !stmtPos {
			return false
		}
	case Break, Continue:
		if !inLoop || !stmtPos {
			return false
		}
	}
	bodyFunc, bodyLoop, bodyStmt := inFunc, inLoop, stmtPos
	switch n.K {
	case Func, Lambda, Macro:
		bodyFunc, bodyLoop, bodyStmt = true, false, true
	case For:
		bodyLoop = true
	}
	for _, k := range n.Kids {
		kf, kl, ks := inFunc, inLoop, false
		if n.K == Lambda { // expression-bodied lambda: its expression is the function's body
			kf, kl, ks = true, false, false
		}
		if !k.controlOK(kf, kl, ks) {
			return false
		}
	}
	for _, b := range n.Body {
		if !b.controlOK(bodyFunc, bodyLoop, bodyStmt) {
			return false
		}
	}
	for _, b := range n.Else {
		if !b.controlOK(bodyFunc, bodyLoop, bodyStmt) {
			return false
		}
	}
	return true
}
