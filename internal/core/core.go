// Package core is the shared machinery of the bounded-exhaustive checks:
// sharding of an enumeration over worker processes, counters, known-finding
// classification, replay files and evidence output.
package core

import (
	"crypto/sha1"
	"encoding/hex"
	"encoding/json"
	"fmt"
	"hash/fnv"
	"math"
	"math/bits"
	"os"
	"os/exec"
	"path/filepath"
	"runtime"
	"runtime/debug"
	"sort"
	"strconv"
	"strings"
	"sync"
	"time"
)

// VerifDir is where MANIFEST.json, known_findings.json, evidence/ and replays/ live.
var VerifDir = func() string {
	if d := os.Getenv("VERIF_DIR"); d != "" {
		return d
	}
	return "/verif"
}()

// OutDir is where evidence/ and replays/ are written (VERIF_OUT overrides it for runs against seeded trees).
var OutDir = func() string {
	if d := os.Getenv("VERIF_OUT"); d != "" {
		return d
	}
	return VerifDir
}()

// Case is one enumerated case in a serialisable form (what a replay file holds).
type Case struct {
	Kind string `json:"kind"`           // check-specific family name
	Data string `json:"data,omitempty"` // printable payload
	Hex  string `json:"hex,omitempty"`  // byte payload (NUL / 0xFF safe)
	Cfg  string `json:"cfg,omitempty"`  // configuration (mode, tier-independent)
}

func (c Case) Bytes() []byte {
	if c.Hex != "" {
		b, _ := hex.DecodeString(c.Hex)
		return b
	}
	return []byte(c.Data)
}

func (c Case) Key() string { return c.Kind + "\x00" + c.Cfg + "\x00" + c.Data + c.Hex }

// Printable returns a short human-readable rendering of a case.
func (c Case) Printable() string {
	d := c.Data
	if c.Hex != "" {
		d = strconv.Quote(string(c.Bytes()))
	} else if strings.ContainsAny(d, "\n\r") {
		d = strconv.Quote(d)
	}
	if c.Cfg != "" {
		return c.Kind + "[" + c.Cfg + "]:" + d
	}
	return c.Kind + ":" + d
}

func BytesCase(kind, cfg string, b []byte) Case {
	return Case{Kind: kind, Cfg: cfg, Hex: hex.EncodeToString(b)}
}

// Viol is a violation observed on one case.
type Viol struct {
	Class    string `json:"class"`  // discrepancy class (deviating-side outcome, panic site, oracle clause)
	Detail   string `json:"detail"` // expected vs observed
	Case     Case   `json:"case"`
	FindText string `json:"find_text,omitempty"` // text used for witness containment (defaults to case payload)
}

// Finding is one entry of known_findings.json.
type Finding struct {
	ID        string   `json:"id"`
	Property  string   `json:"property"`
	Status    string   `json:"status"` // open | fixed
	Commit    string   `json:"commit,omitempty"`
	Class     string   `json:"class"`               // exact class, or prefix if it ends with '*'
	Witnesses []string `json:"witnesses,omitempty"` // a violating case must contain one of these (check-specific containment: substring of the case text)
	Exact     bool     `json:"exact,omitempty"`     // witnesses must equal the case text instead of being contained
	AllOf     []string `json:"all_of,omitempty"`    // every one of these must be contained in the case text (in this order)
	Summary   string   `json:"summary"`
}

type FindingsFile struct {
	Version  int       `json:"version"`
	Findings []Finding `json:"findings"`
}

func LoadFindings(property string) []Finding {
	b, err := os.ReadFile(filepath.Join(VerifDir, "known_findings.json"))
	if err != nil {
		return nil
	}
	var ff FindingsFile
	if err := json.Unmarshal(b, &ff); err != nil {
		fmt.Fprintf(os.Stderr, "known_findings.json: %v\n", err)
		os.Exit(2)
	}
	var out []Finding
	for _, f := range ff.Findings {
		if f.Property == property && f.Status == "open" {
			if len(strings.TrimSuffix(f.Class, "*")) < 3 && len(f.Witnesses) == 0 && len(f.AllOf) == 0 {
				// an entry that names neither a class nor an input would suppress every violation of the property
				fmt.Fprintf(os.Stderr, "known_findings.json: entry %s identifies no specific class or input\n", f.ID)
				os.Exit(2)
			}
			out = append(out, f)
		}
	}
	return out
}

func (f *Finding) Matches(v *Viol) bool {
	if strings.HasSuffix(f.Class, "*") {
		if !strings.HasPrefix(v.Class, strings.TrimSuffix(f.Class, "*")) {
			return false
		}
	} else if f.Class != v.Class {
		return false
	}
	if len(f.Witnesses) == 0 && len(f.AllOf) == 0 {
		return true // identified by class (call site) alone
	}
	text := v.FindText
	if text == "" {
		text = string(v.Case.Bytes())
	}
	if len(f.AllOf) > 0 {
		rest := text
		for _, w := range f.AllOf {
			i := strings.Index(rest, w)
			if i < 0 {
				return false
			}
			rest = rest[i+len(w):]
		}
		if len(f.Witnesses) == 0 {
			return true
		}
	}
	for _, w := range f.Witnesses {
		if f.Exact {
			if text == w {
				return true
			}
		} else if strings.Contains(text, w) {
			return true
		}
	}
	return false
}

// Part is what one worker reports; parts are merged by the parent.
type Part struct {
	Evals        int64            `json:"evals"`
	Nontrivial   int64            `json:"nontrivial"`
	Outcomes     map[string]int64 `json:"outcomes"`
	Samples      []string         `json:"samples"`
	States       int64            `json:"states"`
	Transitions  int64            `json:"transitions"`
	Traces       int64            `json:"traces"`
	NewViols     []Viol           `json:"new_viols"`
	NewViolCount map[string]int64 `json:"new_viol_count"`
	Known        map[string]int64 `json:"known"` // finding id -> count
	KnownExample map[string]string `json:"known_example"`
	Capped       bool             `json:"capped"` // an internal cap/deadline was hit
	Notes        map[string]int64 `json:"notes"`
	Bound        string           `json:"bound"`
	Flaky        []string         `json:"flaky"`
	Spaces       map[string]int64 `json:"spaces"` // family -> cases generated (before sharding), to show cardinalities
	Sketch       []byte           `json:"sketch,omitempty"` // linear-counting bitmap of observation hashes (Ctx.Observe)
	Observed     int64            `json:"observed"`         // number of Observe calls
}

// OnRun is called with the context before a check's Run function starts (used by package checks to install its
// observation sink).
var OnRun func(c *Ctx)

const sketchBits = 1 << 23 // 1 MiB bitmap: linear counting is within ~1% up to several million distinct observations

// Observe records what a case was observed to do (outputs, values, errors - whatever the check compares), so that the
// evidence can state how many DISTINCT behaviours the explored cases exhibited (a guard against vacuous exploration:
// many cases with one behaviour mean nothing collided). Counted with a linear-counting sketch merged across workers.
func (c *Ctx) Observe(parts ...string) {
	if c.P.Sketch == nil {
		c.P.Sketch = make([]byte, sketchBits/8)
	}
	h := fnv.New64a()
	for _, p := range parts {
		h.Write([]byte(p))
		h.Write([]byte{0})
	}
	x := h.Sum64()
	x ^= x >> 29
	b := x % sketchBits
	c.P.Sketch[b/8] |= 1 << (b % 8)
	c.P.Observed++
}

func sketchEstimate(sk []byte) int64 {
	if sk == nil {
		return 0
	}
	zero := 0
	for _, b := range sk {
		zero += 8 - bits.OnesCount8(b)
	}
	if zero == 0 {
		return sketchBits
	}
	return int64(math.Round(-float64(sketchBits) * math.Log(float64(zero)/float64(sketchBits))))
}

// Ctx is handed to a check's Run function in a worker.
type Ctx struct {
	ID       string
	Tier     string
	Shard    int
	Of       int
	Seed     int64
	Deadline time.Time
	P        Part
	findings []Finding
	seen     map[uint64]struct{}
	ntSeen   map[uint64]struct{}
	sampleEvery int64
	Replaying bool
	cur       atomicCase
	outFile   string
	curFile   *os.File
}

type atomicCase struct {
	mu   sync.Mutex
	cs   Case
	seq  int64
	set  bool
}

// Current records the case about to be executed so that the watchdog can attribute a hang
// (or a fatal error of the worker) to it.
func (c *Ctx) Current(cs Case) {
	c.cur.mu.Lock()
	c.cur.cs = cs
	c.cur.seq++
	c.cur.set = true
	c.cur.mu.Unlock()
	if c.curFile != nil {
		b, _ := json.Marshal(cs)
		// length-prefixed record at offset 0: survives a fatal error of the process (unbuffered write)
		rec := append([]byte(fmt.Sprintf("%08d", len(b))), b...)
		c.curFile.WriteAt(rec, 0)
	}
}

// startWatchdog reports a case that makes no progress for `limit` as a violation of class "hang",
// flushes the partial results and ends the worker (the run is then marked not exhaustive).
func (c *Ctx) startWatchdog(limit time.Duration) {
	go func() {
		var lastSeq int64 = -1
		var since time.Time
		for {
			time.Sleep(500 * time.Millisecond)
			c.cur.mu.Lock()
			seq, cs, set := c.cur.seq, c.cur.cs, c.cur.set
			c.cur.mu.Unlock()
			if !set {
				continue
			}
			if seq != lastSeq {
				lastSeq, since = seq, time.Now()
				continue
			}
			if time.Since(since) > limit {
				p := c.P // racy snapshot is acceptable: the worker is stuck
				p.Capped = true
				p.NewViolCount = map[string]int64{"hang": 1}
				p.NewViols = []Viol{{Class: "hang", Detail: fmt.Sprintf("no progress for %v", limit), Case: cs}}
				b, _ := json.Marshal(&p)
				if c.outFile != "" {
					os.WriteFile(c.outFile, b, 0o644)
				}
				fmt.Fprintf(os.Stderr, "watchdog: case %s hangs\n", cs.Printable())
				os.Exit(0)
			}
		}
	}()
}

const maxExamplesPerClass = 5

func NewCtx(id, tier string, shard, of int) *Ctx {
	c := &Ctx{ID: id, Tier: tier, Shard: shard, Of: of}
	c.P.Outcomes = map[string]int64{}
	c.P.NewViolCount = map[string]int64{}
	c.P.Known = map[string]int64{}
	c.P.KnownExample = map[string]string{}
	c.P.Notes = map[string]int64{}
	c.P.Spaces = map[string]int64{}
	c.seen = map[uint64]struct{}{}
	c.ntSeen = map[uint64]struct{}{}
	c.findings = LoadFindings(id)
	return c
}

func Hash(s string) uint64 {
	h := fnv.New64a()
	h.Write([]byte(s))
	return h.Sum64()
}

// Quick reports whether the tier is quick.
func (c *Ctx) Quick() bool { return c.Tier != "thorough" }

// Expired reports whether the internal deadline passed; the check must then stop
// enumerating and the run is reported as exhaustive:false.
func (c *Ctx) Expired() bool {
	if !c.Deadline.IsZero() && time.Now().After(c.Deadline) {
		c.P.Capped = true
		return true
	}
	return false
}

// Mine decides, by hash of the canonical case key, whether this worker owns the case.
// All workers enumerate the same sequence; equal keys land in the same worker so that
// distinct counts add up across workers. Returns false for cases already seen.
func (c *Ctx) Mine(family, key string) bool {
	c.P.Spaces[family]++
	h := Hash(family + "\x00" + key)
	if c.Of > 1 && int(h%uint64(c.Of)) != c.Shard {
		return false
	}
	if _, dup := c.seen[h]; dup {
		return false
	}
	c.seen[h] = struct{}{}
	return true
}

// MineNoDedup is Mine for enumerations that are injective by construction and too large to
// keep a seen-set for.
func (c *Ctx) MineNoDedup(family, key string) bool {
	c.P.Spaces[family]++
	h := Hash(family + "\x00" + key)
	return c.Of <= 1 || int(h%uint64(c.Of)) == c.Shard
}

// Count records one evaluated case, its outcome class (for the distinct-outcomes
// statistic) and whether it is non-trivial by the check's rule.
func (c *Ctx) Count(key string, outcome string, nontrivial bool) {
	c.P.Evals++
	if outcome != "" {
		c.P.Outcomes[outcome]++
	}
	if nontrivial {
		h := Hash(key)
		if _, ok := c.ntSeen[h]; !ok {
			c.ntSeen[h] = struct{}{}
			c.P.Nontrivial++
		}
	}
	// keep a spread of samples: first few, then exponentially spaced
	n := c.P.Evals
	if n <= 3 || (n&(n-1)) == 0 {
		if len(c.P.Samples) < 40 {
			c.P.Samples = append(c.P.Samples, trunc(key, 200))
		}
	}
}

// CountNT is Count for injective enumerations (no distinct-set kept: every case is distinct by construction).
func (c *Ctx) CountNT(key string, outcome string, nontrivial bool) {
	c.P.Evals++
	if outcome != "" {
		c.P.Outcomes[outcome]++
	}
	if nontrivial {
		c.P.Nontrivial++
	}
	n := c.P.Evals
	if n <= 3 || (n&(n-1)) == 0 {
		if len(c.P.Samples) < 40 {
			c.P.Samples = append(c.P.Samples, trunc(key, 200))
		}
	}
}

func trunc(s string, n int) string {
	s = strings.ToValidUTF8(s, "�")
	if len(s) > n {
		return s[:n] + "…"
	}
	return s
}

// Run evaluates one case function; if it reports a violation the case is re-run 5 times and
// must report the same class every time (owned nondeterminism), then it is classified
// against the known findings.
func (c *Ctx) Run(f0 func() *Viol) *Viol {
	// a Go panic escaping the code under test (API-level checks call it directly) is a violation of the case being
	// run, not a reason for the worker to die without a verdict
	f := func() (v *Viol) {
		defer func() {
			if r := recover(); r != nil {
				msg := fmt.Sprint(r)
				if len(msg) > 120 {
					msg = msg[:120]
				}
				c.cur.mu.Lock()
				cs := c.cur.cs
				c.cur.mu.Unlock()
				v = &Viol{Class: "panic: " + msg, Detail: string(debug.Stack()), Case: cs}
			}
		}()
		return f0()
	}
	v := f()
	if v == nil {
		return nil
	}
	for i := 0; i < 5; i++ {
		v2 := f()
		if v2 == nil || v2.Class != v.Class {
			got := "<none>"
			if v2 != nil {
				got = v2.Class
			}
			c.P.Flaky = append(c.P.Flaky, fmt.Sprintf("%s: first %q then %q", v.Case.Printable(), v.Class, got))
			return nil
		}
	}
	c.Report(v)
	return v
}

// Report classifies a (re-confirmed) violation.
func (c *Ctx) Report(v *Viol) {
	for i := range c.findings {
		f := &c.findings[i]
		if f.Matches(v) {
			c.P.Known[f.ID]++
			if _, ok := c.P.KnownExample[f.ID]; !ok {
				c.P.KnownExample[f.ID] = trunc(v.Case.Printable(), 160)
			}
			return
		}
	}
	c.P.NewViolCount[v.Class]++
	if c.P.NewViolCount[v.Class] <= maxExamplesPerClass {
		c.P.NewViols = append(c.P.NewViols, *v)
	}
}

func (c *Ctx) Note(k string, n int64) { c.P.Notes[k] += n }

// ---------------------------------------------------------------------------------

// Check describes one property check.
type Check struct {
	ID        string
	Level     string // evidence level
	Rule      string // how cases are enumerated, what is non-trivial
	Assume    []string
	QuickCap  time.Duration // internal deadline (exit 0 with exhaustive:false when hit)
	ThoroughCap time.Duration
	Workers   int // 0 = all cores; 1 = in-process single
	HangLimit time.Duration // >0: a case making no progress for this long is reported as class "hang"
	TrackDeath bool         // record the current case in a side file so that a dying worker is attributed to an input
	WorkerEnv  []string     // extra environment for worker processes
	Run       func(c *Ctx)
	// Replay re-runs one case without the explorer.
	Replay func(c *Ctx, cs Case) *Viol
	// Post is run in the parent after merging (optional), may add notes.
	Post func(m *Part)
}

var (
	registry = map[string]*Check{}
	regMu    sync.Mutex
)

func Register(ch *Check) {
	regMu.Lock()
	defer regMu.Unlock()
	registry[ch.ID] = ch
}

func Lookup(id string) *Check { return registry[id] }

func IDs() []string {
	var ids []string
	for k := range registry {
		ids = append(ids, k)
	}
	sort.Strings(ids)
	return ids
}

func merge(dst *Part, src *Part) {
	dst.Evals += src.Evals
	dst.Nontrivial += src.Nontrivial
	dst.States += src.States
	dst.Transitions += src.Transitions
	dst.Traces += src.Traces
	dst.Capped = dst.Capped || src.Capped
	for k, v := range src.Outcomes {
		dst.Outcomes[k] += v
	}
	for k, v := range src.Notes {
		dst.Notes[k] += v
	}
	for k, v := range src.Spaces {
		if v > dst.Spaces[k] { // every worker enumerates the same space
			dst.Spaces[k] = v
		}
	}
	for k, v := range src.NewViolCount {
		dst.NewViolCount[k] += v
	}
	for k, v := range src.Known {
		dst.Known[k] += v
		if _, ok := dst.KnownExample[k]; !ok {
			dst.KnownExample[k] = src.KnownExample[k]
		}
	}
	dst.Observed += src.Observed
	if src.Sketch != nil {
		if dst.Sketch == nil {
			dst.Sketch = make([]byte, sketchBits/8)
		}
		for i, b := range src.Sketch {
			dst.Sketch[i] |= b
		}
	}
	dst.NewViols = append(dst.NewViols, src.NewViols...)
	dst.Flaky = append(dst.Flaky, src.Flaky...)
	if len(dst.Samples) < 60 {
		dst.Samples = append(dst.Samples, src.Samples...)
	}
	if src.Bound != "" {
		dst.Bound = src.Bound
	}
}

func newPart() *Part {
	return &Part{Outcomes: map[string]int64{}, NewViolCount: map[string]int64{}, Known: map[string]int64{},
		KnownExample: map[string]string{}, Notes: map[string]int64{}, Spaces: map[string]int64{}}
}

// Main is the entry point of the vcheck binary.
func Main(args []string) int {
	if len(args) < 1 {
		fmt.Fprintf(os.Stderr, "usage: vcheck <ID> [-tier quick|thorough] [-replay file] | list\n")
		return 2
	}
	if args[0] == "list" {
		for _, id := range IDs() {
			fmt.Println(id)
		}
		return 0
	}
	id := args[0]
	ch := Lookup(id)
	if ch == nil {
		// hidden child roles are dispatched by checks through ChildRoles
		if f, ok := childRoles[id]; ok {
			return f(args[1:])
		}
		fmt.Fprintf(os.Stderr, "unknown check %q\n", id)
		return 2
	}
	tier := os.Getenv("VERIF_TIER")
	if tier == "" {
		tier = "quick"
	}
	replay := ""
	worker, of := -1, 0
	out := ""
	for i := 1; i < len(args); i++ {
		switch args[i] {
		case "-tier":
			i++
			tier = args[i]
		case "-replay":
			i++
			replay = args[i]
		case "-worker":
			i++
			fmt.Sscanf(args[i], "%d/%d", &worker, &of)
		case "-out":
			i++
			out = args[i]
		default:
			if args[i] == "quick" || args[i] == "thorough" {
				tier = args[i]
			} else if args[i] == "replay" && i+1 < len(args) {
				i++
				replay = args[i]
			}
		}
	}
	seed, _ := strconv.ParseInt(os.Getenv("VERIF_SEED"), 10, 64)
	if replay != "" {
		return doReplay(ch, replay)
	}
	capDur := ch.QuickCap
	if tier == "thorough" {
		capDur = ch.ThoroughCap
	}
	if worker >= 0 {
		// worker role
		c := NewCtx(id, tier, worker, of)
		c.Seed = seed
		c.outFile = out
		if capDur > 0 {
			c.Deadline = time.Now().Add(capDur)
		}
		if ch.HangLimit > 0 {
			c.startWatchdog(ch.HangLimit)
		}
		if ch.TrackDeath {
			c.curFile, _ = os.Create(out + ".cur")
		}
		if OnRun != nil {
			OnRun(c)
		}
		ch.Run(c)
		b, _ := json.Marshal(&c.P)
		if err := os.WriteFile(out, b, 0o644); err != nil {
			fmt.Fprintln(os.Stderr, err)
			return 2
		}
		return 0
	}
	// parent role
	start := time.Now()
	n := ch.Workers
	if n == 0 {
		n = runtime.NumCPU()
	}
	total := newPart()
	if n == 1 {
		c := NewCtx(id, tier, 0, 1)
		c.Seed = seed
		if capDur > 0 {
			c.Deadline = time.Now().Add(capDur)
		}
		if OnRun != nil {
			OnRun(c)
		}
		ch.Run(c)
		merge(total, &c.P)
	} else {
		tmp, err := os.MkdirTemp("", "vcheck-"+id+"-")
		if err != nil {
			fmt.Fprintln(os.Stderr, err)
			return 2
		}
		defer os.RemoveAll(tmp)
		self, _ := os.Executable()
		type res struct {
			i   int
			err error
			log string
		}
		ch2 := make(chan res, n)
		for i := 0; i < n; i++ {
			go func(i int) {
				outf := filepath.Join(tmp, fmt.Sprintf("w%d.json", i))
				cmd := exec.Command(self, id, "-tier", tier, "-worker", fmt.Sprintf("%d/%d", i, n), "-out", outf)
				cmd.Env = append(append(os.Environ(), "GOMAXPROCS=2"), ch.WorkerEnv...)
				ob, err := cmd.CombinedOutput()
				ch2 <- res{i, err, string(ob)}
			}(i)
		}
		failed := false
		for i := 0; i < n; i++ {
			r := <-ch2
			if r.err != nil {
				if ch.TrackDeath {
					// attribute the death to the case the worker was executing
					if b, err := os.ReadFile(filepath.Join(tmp, fmt.Sprintf("w%d.json.cur", r.i))); err == nil && len(b) > 8 {
						var n int
						fmt.Sscanf(string(b[:8]), "%d", &n)
						var cs Case
						if n > 0 && 8+n <= len(b) && json.Unmarshal(b[8:8+n], &cs) == nil {
							msg := "worker process died"
							for _, l := range strings.Split(r.log, "\n") {
								if strings.HasPrefix(l, "fatal error:") || strings.HasPrefix(l, "runtime:") || strings.Contains(l, "signal:") {
									msg = l
									break
								}
							}
							total.NewViolCount["process-death"]++
							total.NewViols = append(total.NewViols, Viol{Class: "process-death", Detail: msg + " (" + r.err.Error() + ")", Case: cs})
							total.Capped = true
							continue
						}
					}
				}
				fmt.Fprintf(os.Stderr, "worker %d failed: %v\n%s\n", r.i, r.err, tail(r.log, 4000))
				failed = true
				continue
			}
			b, err := os.ReadFile(filepath.Join(tmp, fmt.Sprintf("w%d.json", r.i)))
			if err != nil {
				fmt.Fprintf(os.Stderr, "worker %d: %v\n", r.i, err)
				failed = true
				continue
			}
			var p Part
			if err := json.Unmarshal(b, &p); err != nil {
				fmt.Fprintf(os.Stderr, "worker %d: %v\n", r.i, err)
				failed = true
				continue
			}
			merge(total, &p)
		}
		if failed {
			fmt.Fprintf(os.Stderr, "HARNESS-ERROR: a worker died; no verdict\n")
			return 2
		}
	}
	if ch.Post != nil {
		ch.Post(total)
	}
	return finish(ch, tier, seed, total, time.Since(start))
}

func tail(s string, n int) string {
	if len(s) > n {
		return s[len(s)-n:]
	}
	return s
}

var childRoles = map[string]func(args []string) int{}

// RegisterChild registers a hidden sub-command (child process role).
func RegisterChild(name string, f func(args []string) int) { childRoles[name] = f }

func finish(ch *Check, tier string, seed int64, p *Part, wall time.Duration) int {
	if len(p.Flaky) > 0 {
		for _, f := range p.Flaky {
			fmt.Printf("HARNESS-ERROR: non-reproducible violation: %s\n", f)
		}
	}
	// known findings
	findings := LoadFindings(ch.ID)
	sort.Slice(findings, func(i, j int) bool { return findings[i].ID < findings[j].ID })
	knownSeen := 0
	for _, f := range findings {
		if n := p.Known[f.ID]; n > 0 {
			knownSeen++
			fmt.Printf("KNOWN-FINDING: property=%s %s: %s (class=%s, %d cases, e.g. %s)\n", ch.ID, f.ID, f.Summary, f.Class, n, p.KnownExample[f.ID])
		}
	}
	// new violations -> replay files
	nviol := int64(0)
	classes := make([]string, 0, len(p.NewViolCount))
	for k, n := range p.NewViolCount {
		classes = append(classes, k)
		nviol += n
	}
	sort.Strings(classes)
	sort.Slice(p.NewViols, func(i, j int) bool {
		a, b := p.NewViols[i], p.NewViols[j]
		if a.Class != b.Class {
			return a.Class < b.Class
		}
		ka, kb := a.Case.Key(), b.Case.Key()
		if len(ka) != len(kb) {
			return len(ka) < len(kb)
		}
		return ka < kb
	})
	printed := map[string]int{}
	os.MkdirAll(filepath.Join(OutDir, "replays"), 0o755)
	for _, v := range p.NewViols {
		if printed[v.Class] >= 3 {
			continue
		}
		printed[v.Class]++
		path := writeReplay(ch.ID, tier, &v)
		fmt.Printf("VIOLATION property=%s replay=%s class=%q count=%d case=%s detail=%s\n", ch.ID, path, v.Class, p.NewViolCount[v.Class], trunc(v.Case.Printable(), 200), trunc(v.Detail, 300))
	}
	exhaustive := !p.Capped
	// evidence
	samples := []any{}
	for i, s := range p.Samples {
		if i >= 40 {
			break
		}
		samples = append(samples, s)
	}
	if len(samples) == 0 {
		samples = append(samples, "(none)")
	}
	outc := map[string]int64{}
	// cap the number of outcome classes written
	keys := make([]string, 0, len(p.Outcomes))
	for k := range p.Outcomes {
		keys = append(keys, k)
	}
	sort.Strings(keys)
	for i, k := range keys {
		if i >= 200 {
			break
		}
		outc[k] = p.Outcomes[k]
	}
	cov := map[string]any{
		"evaluations":         p.Evals,
		"distinct_nontrivial": p.Nontrivial,
		"rule":                ch.Rule,
		"samples":             samples,
		"exhaustive":          exhaustive,
		"completed_bound":     p.Bound,
		"distinct_outcomes":   len(p.Outcomes),
		"outcome_classes":     outc,
		"spaces":              p.Spaces,
		"known_findings_seen": p.Known,
		"new_violation_classes": p.NewViolCount,
		"notes":               p.Notes,
	}
	if p.Observed > 0 {
		cov["observations"] = p.Observed
		cov["distinct_behaviours_estimate"] = sketchEstimate(p.Sketch)
		cov["distinct_behaviours_note"] = "number of distinct observation records (what the oracle compares: outputs, values, errors, dumps) among the explored cases; linear-counting estimate over a 2^23-bit sketch merged across workers"
	}
	if p.States > 0 || ch.Level == "model_checking" {
		cov["states"] = p.States
		cov["transitions"] = p.Transitions
		cov["traces_validated_against_impl"] = p.Traces
	}
	ev := map[string]any{
		"property_id": ch.ID,
		"tier":        tier,
		"seed":        seed,
		"level":       ch.Level,
		"coverage":    cov,
		"assumptions": ch.Assume,
		"wall_s":      float64(int(wall.Seconds()*100)) / 100,
		"violations":  nviol,
	}
	b, _ := json.MarshalIndent(ev, "", " ")
	os.MkdirAll(filepath.Join(OutDir, "evidence"), 0o755)
	if err := os.WriteFile(filepath.Join(OutDir, "evidence", ch.ID+".json"), append(b, '\n'), 0o644); err != nil {
		fmt.Fprintln(os.Stderr, err)
		return 2
	}
	fmt.Printf("%s tier=%s evaluations=%d distinct_nontrivial=%d states=%d transitions=%d outcomes=%d exhaustive=%v bound=%q known=%d new_violations=%d wall=%.1fs\n",
		ch.ID, tier, p.Evals, p.Nontrivial, p.States, p.Transitions, len(p.Outcomes), exhaustive, p.Bound, knownSeen, nviol, wall.Seconds())
	if nviol > 0 {
		return 1 // confirmed violations decide, whatever else was inconclusive
	}
	if len(p.Flaky) > 0 {
		return 2
	}
	return 0
}

func writeReplay(id, tier string, v *Viol) string {
	b, _ := json.MarshalIndent(map[string]any{"property": id, "tier": tier, "class": v.Class, "detail": v.Detail, "case": v.Case}, "", " ")
	sum := sha1.Sum([]byte(v.Class + v.Case.Key()))
	path := filepath.Join(OutDir, "replays", fmt.Sprintf("%s-%s.json", id, hex.EncodeToString(sum[:6])))
	os.WriteFile(path, append(b, '\n'), 0o644)
	return path
}

func doReplay(ch *Check, path string) int {
	b, err := os.ReadFile(path)
	if err != nil {
		fmt.Fprintln(os.Stderr, err)
		return 2
	}
	var r struct {
		Property string `json:"property"`
		Tier     string `json:"tier"`
		Class    string `json:"class"`
		Case     Case   `json:"case"`
	}
	if err := json.Unmarshal(b, &r); err != nil {
		fmt.Fprintln(os.Stderr, err)
		return 2
	}
	if ch.Replay == nil {
		fmt.Fprintf(os.Stderr, "check %s has no replay\n", ch.ID)
		return 2
	}
	c := NewCtx(ch.ID, r.Tier, 0, 1)
	c.Replaying = true
	v := ch.Replay(c, r.Case)
	if v == nil {
		fmt.Printf("replay %s: case %s holds (no violation)\n", path, r.Case.Printable())
		return 0
	}
	lim := 600
	if os.Getenv("VERIF_FULL") != "" {
		lim = 1 << 20
	}
	fmt.Printf("VIOLATION property=%s replay=%s class=%q case=%s detail=%s\n", ch.ID, path, v.Class, trunc(v.Case.Printable(), 300), trunc(v.Detail, lim))
	return 1
}
