#!/bin/bash
set -e
cd "$(dirname "$0")"
. ./env.sh
./build.sh
bin/vcheck list
