#!/usr/bin/env python3
"""Regenerates the generated tables of DESIGN.md (between <!-- BEGIN:x --> / <!-- END:x --> markers):
fixes (from known_findings.json), open findings, seeded changes (seeded/*/meta.json), reverts (seeded/reverts.json),
coverage (evidence/*.json)."""
import json, os, re, glob
here = os.path.dirname(os.path.dirname(os.path.abspath(__file__)))
kf = json.load(open(os.path.join(here, "known_findings.json")))

def fixes():
    by = {}
    for l in kf["fixed"]:
        m = re.match(r"fixed: property=(\S+) (\S+) (.*?) \[(fix: .*)\]$", l)
        if not m:
            continue
        by.setdefault(m.group(1), []).append((m.group(2), m.group(3), m.group(4)))
    out = ["| property | commit | what failed on the pinned tree | repair |", "|---|---|---|---|"]
    for p in sorted(by):
        for sha, what, subj in by[p]:
            out.append("| %s | %s | %s | %s |" % (p, sha, what.replace("|", "\\|"), subj.replace("|", "\\|")))
    return "\n".join(out)

def findings():
    out = ["| id | property | class | summary |", "|---|---|---|---|"]
    for f in kf["findings"]:
        if f.get("status") != "open":
            continue
        out.append("| %s | %s | `%s` | %s |" % (f["id"], f["property"], f.get("class", ""), f.get("summary", "").replace("|", "\\|").replace("\n", " ")))
    return "\n".join(out)

def seeds():
    out = ["| seed | property | what the change is (first line of the author's note) | caught by | status |", "|---|---|---|---|---|"]
    for d in sorted(glob.glob(os.path.join(here, "seeded", "C*-s*"))):
        mp = os.path.join(d, "meta.json")
        if not os.path.exists(mp):
            continue
        m = json.load(open(mp))
        note = ""
        for l in (m.get("needs_to_manifest") or "").splitlines():
            l = l.strip().lstrip("#").strip()
            if l:
                note = l
                break
        caught = [k for k, v in m.get("checks", {}).items() if v.get("exit") == 1]
        status = m.get("status", "")
        if not status:
            status = "caught" if m.get("caught") else "MISSED"
        out.append("| %s | %s | %s | %s | %s |" % (m["name"], m["property"], note[:140].replace("|", "\\|"), ", ".join(caught) or "-", status[:160].replace("|", "\\|")))
    return "\n".join(out)

def reverts():
    p = os.path.join(here, "seeded", "reverts.json")
    if not os.path.exists(p):
        return "(not run yet)"
    r = json.load(open(p))
    rs = r["results"]
    clean = [x for x in rs if x.get("status") == "reverted"]
    out = ["%d fix commits; %d revert cleanly on /repo HEAD (%s) and still pass the project's suite; of those %d are reported again by the check of their property (verif commit %s)." % (
        len(rs), len(clean), r.get("repo_head"), sum(1 for x in clean if x.get("caught")), r.get("verif_commit")), ""]
    out += ["| commit | fix | property | outcome |", "|---|---|---|---|"]
    for x in rs:
        if x.get("status") == "reverted":
            oc = "reported again (" + ", ".join(k for k, v in x["checks"].items() if v["exit"] == 1) + ")" if x.get("caught") else "NOT reported by the quick tier"
        else:
            oc = x.get("status", "")
        out.append("| %s | %s | %s | %s |" % (x["commit"], x["subject"][5:90].replace("|", "\\|"), ",".join(x.get("properties", [])), oc))
    return "\n".join(out)

def coverage():
    out = ["| property | tier | evaluations | distinct non-trivial | outcome classes | exhaustive within bound | wall s |", "|---|---|---|---|---|---|---|"]
    for p in sorted(glob.glob(os.path.join(here, "evidence", "C*.json"))):
        e = json.load(open(p))
        c = e["coverage"]
        out.append("| %s | %s | %s | %s | %s | %s | %s |" % (e["property_id"], e.get("tier"), c.get("evaluations"), c.get("distinct_nontrivial"), c.get("distinct_outcomes"), c.get("exhaustive"), e.get("wall_s")))
    return "\n".join(out)

def rules():
    out = []
    for p in sorted(glob.glob(os.path.join(here, "evidence", "C*.json"))):
        e = json.load(open(p))
        c = e["coverage"]
        out.append("**%s** (%s). *Rule:* %s" % (e["property_id"], e["level"], c.get("rule", "")))
        out.append("")
        out.append("*Bound completed by the committed %s run:* %s" % (e.get("tier"), c.get("completed_bound", "")))
        if c.get("distinct_behaviours_estimate"):
            out.append("")
            out.append("*Distinct observed behaviours (estimate):* %s over %s observations." % (c["distinct_behaviours_estimate"], c.get("observations")))
        if e.get("assumptions"):
            out.append("")
            out.append("*Trusted / assumed:* " + "; ".join(e["assumptions"]))
        out.append("")
    return "\n".join(out)

gen = {"rules": rules, "fixes": fixes, "findings": findings, "seeds": seeds, "reverts": reverts, "coverage": coverage}
p = os.path.join(here, "DESIGN.md")
s = open(p).read()
for k, f in gen.items():
    b, e = "<!-- BEGIN:%s -->" % k, "<!-- END:%s -->" % k
    if b in s and e in s:
        s = s[:s.index(b) + len(b)] + "\n" + f() + "\n" + s[s.index(e):]
open(p, "w").write(s)
print("DESIGN.md tables regenerated")
