#!/usr/bin/env python3
"""revertfix.py [--jobs N] [--only sha,sha] [--tier quick]

Regression test of the checks against the defects they found: for every "fix:" commit in /repo, a scratch
worktree of /repo HEAD gets that commit reverted (git revert --no-commit); if the revert applies, builds and the
project's own test suite still passes, the check of the property the fix is recorded under (tools/fixprops.json)
is run against that worktree (isolated: own binary, own output directory, a snapshot of the committed /verif).
A fixed entry of known_findings.json suppresses nothing, so the check must report the violation again.
Results: /verif/seeded/reverts.json. Nothing is ever changed in /repo itself.
"""
import json, os, subprocess, sys, time, concurrent.futures as cf

ENV = dict(os.environ, GOFLAGS="-mod=mod", GOPROXY="off")
ENV.pop("GOTOOLCHAIN", None); ENV.pop("GOSUMDB", None)
HERE = os.path.dirname(os.path.dirname(os.path.abspath(__file__)))

def sh(cmd, cwd=None, timeout=3600):
    try:
        p = subprocess.run(cmd, shell=True, executable='/bin/bash', cwd=cwd, env=ENV, stdout=subprocess.PIPE, stderr=subprocess.STDOUT, text=True, timeout=timeout)
        return p.returncode, p.stdout
    except subprocess.TimeoutExpired as e:
        return 124, (e.stdout or b"").decode("utf8", "replace") if isinstance(e.stdout, bytes) else (e.stdout or "")

def one(sha, subject, props, tier, vsnap):
    wt = f"/tmp/seed/rv-{sha}"
    res = {"commit": sha, "subject": subject, "properties": props, "tier": tier}
    sh(f"git -C /repo worktree remove --force {wt}; rm -rf {wt} {wt}.bin {wt}.out")
    rc, out = sh(f"git -C /repo worktree add --detach {wt} HEAD")
    if rc != 0:
        res["status"] = "no-worktree"; return res
    try:
        rc, out = sh(f"git revert --no-commit {sha}", cwd=wt)
        if rc != 0:
            res["status"] = "revert-conflicts (later commits build on this fix)"; return res
        rc, out = sh("go build ./... && go test -vet=off -count=1 ./... 2>&1 | tail -15", cwd=wt)
        if rc != 0 or "FAIL" in out:
            res["status"] = "reverted tree does not build or fails the project's suite"; res["detail"] = out[-400:]; return res
        res["status"] = "reverted"
        os.makedirs(f"{wt}.bin", exist_ok=True)
        res["checks"] = {}
        for p in props:
            t0 = time.time()
            env2 = f"VERIF_DIR={vsnap} VERIF_REPO={wt} VERIF_BIN={wt}.bin/vcheck VERIF_OUT={wt}.out"
            rc, out = sh(f"{env2} ./run.sh {p} {tier}", cwd=vsnap, timeout=7200)
            viol = [l for l in out.splitlines() if l.startswith("VIOLATION")]
            res["checks"][p] = {"exit": rc, "violations": len(viol), "first": [v[:300] for v in viol[:1]], "wall_s": round(time.time() - t0, 1)}
            if rc not in (0, 1):
                res["checks"][p]["tail"] = out[-600:]
        res["caught"] = any(v["exit"] == 1 for v in res["checks"].values())
        return res
    finally:
        sh(f"git -C /repo worktree remove --force {wt}; rm -rf {wt} {wt}.bin {wt}.out; git -C /repo worktree prune")

def main():
    jobs, only, tier = 3, None, "quick"
    for a in sys.argv[1:]:
        if a.startswith("--jobs="): jobs = int(a.split("=")[1])
        if a.startswith("--only="): only = a.split("=")[1].split(",")
        if a.startswith("--tier="): tier = a.split("=")[1]
    fixprops = json.load(open(os.path.join(HERE, "tools", "fixprops.json")))
    rc, out = sh("git -C /repo log --format='%h %s'")
    todo = []
    for l in out.splitlines():
        sha, subject = l.split(" ", 1)
        if not subject.startswith("fix:"):
            continue
        if only and sha not in only:
            continue
        props = [v[0] for k, v in fixprops.items() if k in subject]
        props = sorted(set(sum([p.split(",") for p in props], [])))
        todo.append((sha, subject, props))
    os.makedirs("/tmp/seed", exist_ok=True)
    vsnap = "/tmp/seed/rv.verif"
    sh(f"git -C /verif worktree remove --force {vsnap}; rm -rf {vsnap}")
    rc, out = sh(f"git -C /verif worktree add --detach {vsnap} HEAD")
    if rc != 0:
        print("cannot snapshot /verif", out); return 2
    vcommit = sh("git -C /verif rev-parse --short HEAD")[1].strip()
    results = []
    dst = os.path.join(HERE, "seeded", "reverts.json")
    prev = {}
    if only and os.path.exists(dst):
        prev = {r["commit"]: r for r in json.load(open(dst))["results"]}
    try:
        with cf.ThreadPoolExecutor(jobs) as ex:
            futs = [ex.submit(one, sha, subj, props, tier, vsnap) for sha, subj, props in todo]
            for f in cf.as_completed(futs):
                r = f.result()
                results.append(r)
                print(r["commit"], r.get("status"), "caught=%s" % r.get("caught"), r["subject"][:70], flush=True)
    finally:
        sh(f"git -C /verif worktree remove --force {vsnap}; rm -rf {vsnap}; git -C /verif worktree prune")
    for r in results:
        prev[r["commit"]] = r
    allr = sorted(prev.values(), key=lambda r: r["subject"])
    json.dump({"verif_commit": vcommit, "repo_head": sh("git -C /repo rev-parse --short HEAD")[1].strip(),
               "what": "each fix: commit of /repo reverted on a scratch worktree of /repo HEAD; the check of the property it is recorded under must report the violation again",
               "results": allr}, open(dst, "w"), indent=1)
    n = [r for r in allr if r.get("status") == "reverted"]
    print("reverted cleanly: %d of %d; caught: %d; missed: %s" % (len(n), len(allr), sum(1 for r in n if r.get("caught")), [r["commit"] for r in n if not r.get("caught")]))

sys.exit(main())
