#!/usr/bin/env python3
"""seedtest.py <agent-out-dir/k> <worktree> <PROPERTY> <seed-name> [--tiers quick,thorough]

1. Confirms, in the scratch worktree, that the change compiles, passes the project's test suite,
   and that the demonstration fails with the change and passes without it.
2. Applies the patch to /repo, runs the property's checks, reverts /repo.
3. Stores patch, demo and meta.json under /verif/seeded/<seed-name>/.
"""
import json, os, re, shutil, subprocess, sys, time

ENV = dict(os.environ, GOFLAGS="-mod=mod", GOPROXY="off")
ENV.pop("GOTOOLCHAIN", None); ENV.pop("GOSUMDB", None)

def sh(cmd, cwd=None, timeout=3600):
    p = subprocess.run(cmd, shell=True, executable='/bin/bash', cwd=cwd, env=ENV, stdout=subprocess.PIPE, stderr=subprocess.STDOUT, text=True, timeout=timeout)
    return p.returncode, p.stdout

def main():
    src, wt, prop, name = sys.argv[1:5]
    tiers = ["quick", "thorough"]
    extra_props = []
    for a in sys.argv[5:]:
        if a.startswith("--tiers="):
            tiers = a.split("=", 1)[1].split(",")
        if a.startswith("--also="):
            extra_props = a.split("=", 1)[1].split(",")
    patch = os.path.join(src, "patch.diff")
    meta = {"property": prop, "name": name, "source": "independent sub-agent (saw only the property text)", "confirmed": {}, "checks": {}}
    notes = os.path.join(src, "notes.md")
    if os.path.exists(notes):
        meta["needs_to_manifest"] = open(notes).read()[:3000]
    # --- 1. confirm in the scratch worktree
    sh("git checkout -- . && git clean -fd", cwd=wt)
    rc, out = sh(f"git apply {patch}", cwd=wt)
    if rc != 0:
        print("patch does not apply in worktree:", out); return 2
    rc, out = sh("go build ./... && go test -vet=off -count=1 ./...", cwd=wt)
    meta["confirmed"]["suite_passes_with_change"] = (rc == 0)
    if rc != 0:
        print("SUITE FAILS WITH CHANGE:\n", out[-2000:])
    demo = None
    for f in os.listdir(src):
        if f.startswith("demo"):
            demo = os.path.join(src, f)
    demo_cmd = None
    placed = None
    if demo and demo.endswith("_test.go"):
        txt = open(demo).read()
        m = re.search(r"place in:\s*([\w/\.]+)", txt)
        d = (m.group(1) if m else ".").strip("/")
        pkgm = re.search(r"^package\s+(\w+)", txt, re.M)
        placed = os.path.join(wt, d, "zz_seed_demo_test.go")
        demo_cmd = f"go test -vet=off -count=1 ./{d}/ -run . 2>&1 | tail -30"
        # find test function names to run only them
        names = re.findall(r"^func (Test\w+)\(", txt, re.M)
        if names:
            demo_cmd = f"go test -vet=off -count=1 ./{d}/ -run '^({'|'.join(names)})$' 2>&1 | tail -30"
    elif demo and demo.endswith(".sh"):
        demo_cmd = f"bash {demo} 2>&1 | tail -30"
    if demo_cmd:
        if placed: shutil.copy(demo, placed)
        rc1, out1 = sh(demo_cmd + "; exit ${PIPESTATUS[0]}", cwd=wt)
        sh("git checkout -- .", cwd=wt)
        rc0, out0 = sh(demo_cmd + "; exit ${PIPESTATUS[0]}", cwd=wt)
        if placed: os.remove(placed)
        meta["confirmed"]["demo_fails_with_change"] = (rc1 != 0)
        meta["confirmed"]["demo_passes_without_change"] = (rc0 == 0)
        meta["confirmed"]["demo_cmd"] = demo_cmd
        if rc1 == 0: print("DEMO DOES NOT FAIL WITH CHANGE\n", out1[-1500:])
        if rc0 != 0: print("DEMO FAILS WITHOUT CHANGE\n", out0[-1500:])
    sh("git checkout -- . && git clean -fd", cwd=wt)
    # --- 2. run the checks against a scratch worktree of /repo's HEAD with the patch applied
    #        (isolated: own worktree, own binary, own output directory; /repo and /verif/evidence are not touched)
    seed_wt = f"/tmp/seed/{name}"
    sh(f"git -C /repo worktree remove --force {seed_wt}; rm -rf {seed_wt} {seed_wt}.bin {seed_wt}.out; mkdir -p /tmp/seed")
    rc, out = sh(f"git -C /repo worktree add --detach {seed_wt} HEAD")
    if rc != 0:
        print("cannot create worktree:", out); return 2
    rc, out = sh(f"git apply {patch}", cwd=seed_wt)
    if rc != 0:
        print("patch does not apply to /repo HEAD:", out)
        sh(f"git -C /repo worktree remove --force {seed_wt}")
        return 2
    # snapshot of the committed /verif (so that edits in progress in /verif do not disturb the run)
    vsnap = f"{seed_wt}.verif"
    sh(f"git -C /verif worktree remove --force {vsnap}; rm -rf {vsnap}")
    rc, out = sh(f"git -C /verif worktree add --detach {vsnap} HEAD")
    if rc != 0:
        print("cannot snapshot /verif:", out); return 2
    meta["verif_commit"] = sh("git -C /verif rev-parse --short HEAD")[1].strip()
    env2 = f"VERIF_DIR={vsnap} VERIF_REPO={seed_wt} VERIF_BIN={seed_wt}.bin/vcheck VERIF_OUT={seed_wt}.out"
    os.makedirs(f"{seed_wt}.bin", exist_ok=True)
    try:
        for p in [prop] + extra_props:
            for tier in tiers:
                t0 = time.time()
                rc, out = sh(f"{env2} ./run.sh {p} {tier}", cwd=vsnap, timeout=7200)
                viol = [l for l in out.splitlines() if l.startswith("VIOLATION")]
                meta["checks"][f"{p}:{tier}"] = {"exit": rc, "violations": len(viol), "first": [v[:400] for v in viol[:2]], "wall_s": round(time.time() - t0, 1)}
                print(f"{name}: {p} {tier}: exit={rc} violations={len(viol)} {(viol[0][:260] if viol else '')}")
                if rc == 2:
                    print(out[-1500:])
                if rc == 1:
                    break  # caught; no need for deeper tier
    finally:
        sh(f"git -C /repo worktree remove --force {seed_wt}; git -C /verif worktree remove --force {vsnap}; rm -rf {seed_wt} {seed_wt}.bin {seed_wt}.out {vsnap}; git -C /repo worktree prune; git -C /verif worktree prune")
    caught = any(v["exit"] == 1 for v in meta["checks"].values())
    meta["caught"] = caught
    dst = os.path.join("/verif/seeded", name)
    os.makedirs(dst, exist_ok=True)
    shutil.copy(patch, os.path.join(dst, "patch.diff"))
    if demo: shutil.copy(demo, os.path.join(dst, os.path.basename(demo)))
    if os.path.exists(notes): shutil.copy(notes, os.path.join(dst, "notes.md"))
    meta["ran"] = "tools/seedtest.py: project test suite + demonstration in the sub-agent's scratch worktree (with and without the change); then the patch applied to a fresh scratch worktree of /repo HEAD and ./run.sh <ID> <tier> run against it (VERIF_REPO/VERIF_BIN/VERIF_OUT isolation), worktree removed afterwards"
    json.dump(meta, open(os.path.join(dst, "meta.json"), "w"), indent=1)
    print(f"{name}: caught={caught} confirmed={meta['confirmed']}")
    return 0

sys.exit(main())
