#!/usr/bin/env python3
"""Regenerates MANIFEST.json from the table below (kept in one place so it stays valid)."""
import json, os, subprocess
here = os.path.dirname(os.path.dirname(os.path.abspath(__file__)))
hooks_commits = [l.strip() for l in open(os.path.join(here, "tools", "hook_commits.txt")) if l.strip()] if os.path.exists(os.path.join(here, "tools", "hook_commits.txt")) else []
m = {
 "version": 1,
 "setup_cmd": "./setup.sh",
 "hooks": {"guard": "verif",
           "enable": "go build -tags verif (done by ./build.sh, which every check command runs first; it rebuilds bin/vcheck from /repo's current working tree)",
           "baseline_off_cmd": "cd /repo && GOFLAGS=-mod=mod GOPROXY=off go test -vet=off -count=1 ./...",
           "source_commits": hooks_commits, "add_only": True},
 "engines": [{"name": "vcheck", "path": "cmd/vcheck, internal/core", "serves_properties": [],
              "kind_free_text": "hand-written bounded-exhaustive explorer: deterministic smallest-first enumerators and explicit-state history search (successor = replay on a fresh real object + one operation), sharded over worker processes by hash of the canonical case; every case runs on the real code and is compared with a reference model or a second configuration; violations are re-run 5x, classified against known_findings.json and written as replay files"}],
 "checks": [],
 "not_applicable": [],
 "notes": "All checks: ./run.sh <ID> quick|thorough ; replay: ./run.sh <ID> replay <file>. Known findings: known_findings.json (never written at run time). Seeded property-breaking changes used to test the checks: seeded/<id>/.",
}
T = json.load(open(os.path.join(here, "tools", "checks.json")))
for i in range(1, 21):
    id = "C%02d" % i
    if id in T and not T[id].get("na"):
        t = T[id]
        m["engines"][0]["serves_properties"].append(id)
        m["checks"].append({"property_id": id, "quick_cmd": "./run.sh %s quick" % id, "thorough_cmd": "./run.sh %s thorough" % id,
                            "evidence_file": "/verif/evidence/%s.json" % id, "replay_cmd_template": "./run.sh %s replay {path}" % id,
                            "engine": "vcheck",
                            "level_claimed": {"category": t["level"], "text": t["text"], "design_ref": "DESIGN.md §6 " + id},
                            "level_note": t["note"], "technique": t["technique"]})
    else:
        reason = T.get(id, {}).get("na") or "check not built yet (work in progress; bounded-exhaustive exploration applies, see DESIGN.md §6)"
        m["not_applicable"].append({"property_id": id, "reason": reason})
json.dump(m, open(os.path.join(here, "MANIFEST.json"), "w"), indent=1)
print("MANIFEST.json: %d checks, %d not_applicable" % (len(m["checks"]), len(m["not_applicable"])))
