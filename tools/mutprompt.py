#!/usr/bin/env python3
import json, sys
pid, tag = sys.argv[1], sys.argv[2]
n = int(sys.argv[3]) if len(sys.argv) > 3 else 3
extra = sys.argv[4] if len(sys.argv) > 4 else ""
p = [json.loads(l) for l in open('/verif/properties.jsonl') if json.loads(l)['id'] == pid][0]
wt = f"/tmp/mut/{tag}"
print(f"""You are helping to evaluate how robust a verification effort is, by producing realistic *property-breaking* changes to a codebase (mutation testing done by hand). Work ONLY inside the git worktree {wt} (a checkout of the Go project grol-io/grol — GROL, a tree-walking interpreter for a small Go-like language: lexer/, token/, parser/, ast/, eval/, object/, repl/, extensions/, trie/, main.go). Do NOT read or touch /verif or /repo. Put your results in {wt}-out/ (create it).

Build/test environment (no network): in every shell command first run `export GOFLAGS=-mod=mod GOPROXY=off` (leave GOTOOLCHAIN and GOSUMDB unset). The project's test suite is `go test -vet=off -count=1 ./...` run from {wt}; it must keep passing.

The property under study ({pid}: {p['title']}):

STATEMENT: {p['statement']}

QUANTIFIED OVER: {p['quantifier']['text']}

Relevant files: {', '.join(p['anchors']['files'])}

Your task: produce {n} *different* changes to the non-test Go sources of the project, each of which makes the project violate the property above while (1) still compiling, and (2) still passing the complete existing test suite unchanged. Make them realistic — the kind of bug a refactoring, an optimisation or an off-by-one could introduce — and make them need something specific to manifest (a particular multi-step sequence of operations, an unusual input or boundary value, a specific size/threshold, an error path, or two cooperating sites that each look fine alone), NOT something ordinary use would expose at once. The {n} changes should touch different mechanisms. {extra}

For each change k = 1..{n} write into {wt}-out/k/:
  - patch.diff : `git diff` of the change against HEAD (must apply with `git apply` to a clean checkout);
  - a demonstration: demo_test.go (a Go test; state at the top in a comment which package directory it must be copied into, e.g. `// place in: eval/`) or demo.sh, that FAILS with the change applied and PASSES on the unchanged tree;
  - notes.md : which clause of the property it breaks, what it needs in order to manifest, and exactly what you ran.
Before finishing, verify for each change, yourself: the full test suite passes with the change; the demonstration fails with the change and passes without it. Leave the worktree clean at the end (`git checkout -- . && git clean -fd`). Report briefly what the {n} changes are.""")
