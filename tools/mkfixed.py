#!/usr/bin/env python3
"""Rewrites the 'fixed' section of known_findings.json from /repo's fix: commits and tools/fixprops.json."""
import json, subprocess, os
here = os.path.dirname(os.path.dirname(os.path.abspath(__file__)))
props = json.load(open(os.path.join(here, "tools", "fixprops.json")))
log = subprocess.run(["git", "-C", "/repo", "log", "--reverse", "--format=%h %s"], capture_output=True, text=True).stdout.splitlines()
kf = json.load(open(os.path.join(here, "known_findings.json")))
fixed, unk = [], []
for l in log:
    h, subj = l.split(" ", 1)
    if not subj.startswith("fix:"):
        continue
    hit = [k for k in props if k in subj]
    if not hit:
        unk.append(l); continue
    pids, what = props[hit[0]]
    for pid in pids.split(","):
        fixed.append(f"fixed: property={pid} {h} {what} [{subj}]")
kf["fixed"] = fixed
kf["findings"] = [f for f in kf["findings"] if f.get("status") != "fixed"]
json.dump(kf, open(os.path.join(here, "known_findings.json"), "w"), indent=1)
print(len(fixed), "fixed lines;", "UNMAPPED:" if unk else "", *unk)
