#!/opt/veriftools/pyvenv/bin/python
"""Validates MANIFEST.json and every evidence file against the schemas in /root/.vp (run with python3-vt)."""
import json, glob, sys, os
import jsonschema
here = os.path.dirname(os.path.dirname(os.path.abspath(__file__)))
bad = 0
try:
    jsonschema.validate(json.load(open(os.path.join(here, "MANIFEST.json"))), json.load(open("/root/.vp/MANIFEST.schema.json")))
except Exception as e:
    print("MANIFEST.json:", str(e)[:300]); bad += 1
sch = json.load(open("/root/.vp/EVIDENCE.schema.json"))
for f in sorted(glob.glob(os.path.join(here, "evidence", "C*.json"))):
    try:
        jsonschema.validate(json.load(open(f)), sch)
    except Exception as e:
        print(f, str(e)[:300]); bad += 1
print("ok" if not bad else "%d problems" % bad)
sys.exit(1 if bad else 0)
