package main

import (
	"fmt"
	"time"

	"verif/internal/gen"
)

func main() {
	for _, cfg := range []struct {
		name string
		c    gen.Cfg
		max  int
	}{{"full", gen.FullCfg(), 4}, {"reduced", gen.ReducedCfg(), 5}} {
		for size := 1; size <= cfg.max; size++ {
			t0 := time.Now()
			n := 0
			var last string
			cfg.c.EnumStmt(size, func(x *gen.N) bool {
				n++
				if n%100000 == 1 {
					last = gen.Render([]*gen.N{x}, gen.Policy{StmtSep: "\n"})
				}
				return true
			})
			fmt.Printf("%s size %d: %d trees (%.1fs) e.g. %s\n", cfg.name, size, n, time.Since(t0).Seconds(), last)
		}
	}
}
