package main

import (
	"os"

	_ "verif/checks"
	"verif/internal/core"
)

func main() { os.Exit(core.Main(os.Args[1:])) }
